//! C17 / Avro sub-engine.
//!
//! (i)   arrow-avro read(write(batch)) gives logically equal data (OCF x every codec, single-object and
//!       Confluent framings, both nullable-union orders)
//! (ii)  the written bytes are decoded by apache-avro 0.22 (`Reader` for OCF, `from_avro_datum` for
//!       raw bodies, `GenericSingleObjectReader` for single-object frames) and compared to the model
//! (iii) data written by apache-avro (OCF x codec, hand-framed single-object / Confluent messages) is
//!       read by arrow-avro and compared to the model
use crate::util::*;
use crate::val::*;
use apache_avro::types::Value as AV;
use arrow_array::types::Int32Type;
use arrow_array::{Array, ArrayRef, DictionaryArray, Int32Array, RecordBatch, StringArray};
use arrow_avro::compression::CompressionCodec;
use arrow_avro::reader::ReaderBuilder;
use arrow_avro::schema::{AVRO_ENUM_SYMBOLS_METADATA_KEY, AvroSchema, Fingerprint, FingerprintAlgorithm, FingerprintStrategy, SCHEMA_METADATA_KEY, SchemaStore};
use arrow_avro::writer::format::{AvroBinaryFormat, AvroOcfFormat, AvroSoeFormat};
use arrow_avro::writer::WriterBuilder;
use arrow_buffer::i256;
use arrow_schema::{DataType, Field, IntervalUnit, Schema, TimeUnit};
use std::collections::HashMap;
use std::sync::Arc;
use vcore::serde_json::{Value, json};
use vcore::{Ctx, Stats, catch, par_for};

// ---------------------------------------------------------------------------------------------
// column types

#[derive(Clone, Debug, PartialEq)]
pub struct ACol {
    pub dt: DataType,
    /// field metadata: "uuid", "enum", "fixed-decimal" markers are realised through it
    pub kind: Kind,
}

#[derive(Clone, Copy, Debug, PartialEq)]
pub enum Kind {
    Plain,
    Uuid,
    Enum,
    FixedDecimal(usize),
}

const ENUM_SYMBOLS: [&str; 3] = ["A", "B", "C_1"];

fn plain(dt: DataType) -> ACol {
    ACol { dt, kind: Kind::Plain }
}

fn utc() -> Option<Arc<str>> {
    Some(Arc::from("+00:00"))
}

fn map_of(v: DataType, value_nullable: bool) -> DataType {
    DataType::Map(field("entries", struct_of(vec![field("key", DataType::Utf8, false), field("value", v, value_nullable)]), false), false)
}

/// types that come back from arrow-avro with the same Arrow type
pub fn grid_same() -> Vec<ACol> {
    use DataType::*;
    let i32n = || field("item", Int32, true);
    vec![
        plain(Boolean),
        plain(Int32),
        plain(Int64),
        plain(Float32),
        plain(Float64),
        plain(Utf8),
        plain(Binary),
        plain(Date32),
        plain(Time32(TimeUnit::Millisecond)),
        plain(Time64(TimeUnit::Microsecond)),
        plain(Timestamp(TimeUnit::Millisecond, utc())),
        plain(Timestamp(TimeUnit::Microsecond, utc())),
        plain(Timestamp(TimeUnit::Nanosecond, utc())),
        plain(Timestamp(TimeUnit::Millisecond, None)),
        plain(Timestamp(TimeUnit::Microsecond, None)),
        plain(Timestamp(TimeUnit::Nanosecond, None)),
        plain(Interval(IntervalUnit::MonthDayNano)),
        plain(FixedSizeBinary(4)),
        plain(Decimal128(10, 2)),
        plain(Decimal128(38, 10)),
        plain(Decimal256(76, 38)),
        ACol { dt: Decimal128(38, 10), kind: Kind::FixedDecimal(16) },
        ACol { dt: FixedSizeBinary(16), kind: Kind::Uuid },
        ACol { dt: Dictionary(Box::new(Int32), Box::new(Utf8)), kind: Kind::Enum },
        plain(Null),
        plain(List(i32n())),
        plain(List(field("item", Utf8, false))),
        plain(struct_of(vec![field("a", Int32, true), field("b", Utf8, false)])),
        plain(map_of(Int64, true)),
        plain(map_of(Utf8, false)),
        plain(List(field("item", List(i32n()), true))),
        plain(List(field("item", struct_of(vec![field("a", Int64, true), field("s", Utf8, true)]), true))),
        plain(struct_of(vec![field("l", List(field("item", Int64, true)), true), field("m", map_of(Boolean, true), true), field("s", struct_of(vec![field("x", Float64, true)]), true)])),
        plain(map_of(List(i32n()), true)),
        plain(List(field("item", Decimal128(10, 2), true))),
        plain(struct_of(vec![field("d", Date32, true), field("t", Timestamp(TimeUnit::Microsecond, utc()), true), field("f", FixedSizeBinary(4), true)])),
    ]
}

/// types the writer documents as supported but that are read back as a wider / canonical Arrow type
/// with the same logical values
pub fn grid_widened() -> Vec<ACol> {
    use DataType::*;
    vec![
        plain(Int8),
        plain(Int16),
        plain(UInt8),
        plain(UInt16),
        plain(UInt32),
        plain(LargeUtf8),
        plain(Utf8View),
        plain(LargeBinary),
        plain(BinaryView),
        plain(Date64),
        plain(Timestamp(TimeUnit::Millisecond, Some(Arc::from("+05:30")))),
        plain(LargeList(field("item", Int32, true))),
    ]
}

fn dec(i: i128) -> V {
    V::Dec(i256::from_i128(i))
}
fn pow10(n: u32) -> i256 {
    let mut r = i256::ONE;
    for _ in 0..n {
        r = r.checked_mul(i256::from_i128(10)).unwrap();
    }
    r
}

/// non-null alphabet (zig-zag / length-prefix boundaries, extremes)
pub fn aalphabet(c: &ACol) -> Vec<V> {
    use DataType::*;
    let ints = |v: &[i128]| v.iter().map(|x| V::I(*x)).collect::<Vec<_>>();
    let with_null = |f: &arrow_schema::FieldRef| -> Vec<V> {
        let mut a = aalphabet(&plain(f.data_type().clone()));
        if f.is_nullable() {
            a.push(V::Null);
        }
        a
    };
    match &c.dt {
        Boolean => vec![V::Bool(true), V::Bool(false)],
        Int8 => ints(&[0, -1, 63, 64, -64, -65, -128, 127]),
        Int16 => ints(&[0, -1, 8191, 8192, -8192, -8193, i16::MIN as i128, i16::MAX as i128]),
        UInt8 => ints(&[0, 63, 64, 255]),
        UInt16 => ints(&[0, 8192, 65535]),
        UInt32 => ints(&[0, 1, u32::MAX as i128, 1 << 31]),
        Int32 | Date32 => ints(&[0, -1, 1, 63, 64, -64, -65, 8191, 8192, 1048576, i32::MIN as i128, i32::MAX as i128]),
        Time32(_) => ints(&[0, 1, 63, 64, 86_399_999]),
        Time64(_) => ints(&[0, 1, 8192, 86_399_999_999]),
        Int64 | Timestamp(..) | Date64 => ints(&[0, -1, 1, 63, 64, -65, 8192, (1i128 << 53) + 1, i64::MIN as i128, i64::MAX as i128, 1_700_000_000_123]),
        Float32 => [0.0f32, -0.0, 1.0, -1.5, 1e-45, 3.4028235e38, f32::INFINITY, f32::NEG_INFINITY].iter().map(|x| V::f32(*x)).chain([V::F32(0x7fc0_0000), V::F32(0xffc0_0001), V::F32(0x7f80_0001)]).collect(),
        Float64 => [0.0f64, -0.0, 1.0, -1.5, 5e-324, 1.7976931348623157e308, 0.1, f64::INFINITY, f64::NEG_INFINITY].iter().map(|x| V::f64(*x)).chain([V::F64(0x7ff8_0000_0000_0000), V::F64(0xfff8_0000_0000_0001), V::F64(0x7ff0_0000_0000_0001)]).collect(),
        Utf8 | LargeUtf8 | Utf8View => vec![V::s(""), V::s("a"), V::s("é𝄞"), V::s("\u{0}"), V::S("x".repeat(63)), V::S("y".repeat(64)), V::s("a\"b\\c\n")],
        Binary | LargeBinary | BinaryView => vec![V::B(vec![]), V::B(vec![0]), V::B(vec![0xff, 0]), V::B(vec![7; 64]), V::B(vec![0xc3, 0x01])],
        FixedSizeBinary(n) => match c.kind {
            Kind::Uuid => vec![V::B(vec![0; 16]), V::B(vec![0xff; 16]), V::B((0..16u8).map(|i| i * 17).collect())],
            _ => vec![V::B(vec![0; *n as usize]), V::B(vec![0xff; *n as usize]), V::B((0..*n as usize).map(|i| (i + 1) as u8).collect())],
        },
        Decimal128(p, _) | Decimal256(p, _) => {
            let max = pow10(*p as u32).checked_sub(i256::ONE).unwrap();
            vec![dec(0), dec(1), dec(-1), dec(127), dec(128), dec(-128), dec(-129), dec(32767), dec(-32769), V::Dec(max), V::Dec(max.checked_neg().unwrap())]
        }
        Interval(IntervalUnit::MonthDayNano) => vec![V::Mdn(0, 0, 0), V::Mdn(1, 2, 3_000_000), V::Mdn(i32::MAX, i32::MAX, u32::MAX as i64 * 1_000_000), V::Mdn(0, 0, 1_000_000), V::Mdn(12, 0, 0)],
        Dictionary(..) => ENUM_SYMBOLS.iter().map(|s| V::s(s)).collect(),
        Null => vec![],
        List(f) | LargeList(f) => {
            let a = with_null(f);
            let n = a.len();
            let mut v = vec![V::L(vec![]), V::L(vec![a[0].clone()]), V::L(vec![a[n - 1].clone(), a[0].clone(), a[1 % n].clone()])];
            for x in a.iter().skip(2).take(6) {
                v.push(V::L(vec![x.clone()]));
            }
            v.push(V::L((0..5).map(|i| a[(i * 2) % n].clone()).collect()));
            v
        }
        Struct(fs) => {
            let alphas: Vec<Vec<V>> = fs.iter().map(with_null).collect();
            let n = alphas.iter().map(|a| a.len()).max().unwrap_or(1).min(8);
            let mut v: Vec<V> = (0..n).map(|i| V::St(alphas.iter().enumerate().map(|(j, a)| a[(i + j) % a.len()].clone()).collect())).collect();
            v.push(V::St(fs.iter().zip(&alphas).map(|(f, a)| if f.is_nullable() { V::Null } else { a[0].clone() }).collect()));
            v
        }
        Map(entries, _) => {
            let DataType::Struct(kv) = entries.data_type() else { unreachable!() };
            let vals = with_null(&kv[1]);
            let n = vals.len();
            let keys = ["k", "", "é", "a b", "zz"];
            let mut v = vec![V::M(vec![])];
            for i in 0..n.min(6) {
                v.push(V::M(vec![(V::s(keys[i % keys.len()]), vals[i].clone())]));
            }
            v.push(V::M(vec![(V::s("k"), vals[n - 1].clone()), (V::s(""), vals[0].clone()), (V::s("zz"), vals[1 % n].clone())]));
            v
        }
        o => panic!("harness: no avro alphabet for {o:?}"),
    }
}

// ---------------------------------------------------------------------------------------------
// options

#[derive(Clone, Debug)]
pub struct AOpts {
    /// 0 OCF, 1 single-object (Rabin), 2 Confluent (schema id)
    pub framing: u8,
    /// 0 none, 1 deflate, 2 snappy, 3 zstd, 4 bzip2, 5 xz
    pub codec: u8,
    /// nullable unions written as [T, null] instead of [null, T]
    pub null_second: bool,
    pub batch: usize,
    pub utf8_view: bool,
    pub strict: bool,
    pub layout: u8,
    pub nullable: bool,
}

pub const DIM_NAMES: [&str; 8] = ["framing", "codec", "null_second", "batch_size", "utf8_view", "strict_mode", "layout", "nullable"];
const DIM_SIZES: [usize; 8] = [3, 6, 2, 3, 2, 2, 3, 2];
const BATCHES: [usize; 3] = [1024, 1, 2];
pub const CODEC_NAMES: [&str; 6] = ["null", "deflate", "snappy", "zstandard", "bzip2", "xz"];

pub fn opts_from_point(p: &[usize]) -> AOpts {
    AOpts { framing: p[0] as u8, codec: p[1] as u8, null_second: p[2] == 1, batch: BATCHES[p[3]], utf8_view: p[4] == 1, strict: p[5] == 1, layout: p[6] as u8, nullable: p[7] == 0 }
}
fn opts_to_point(o: &AOpts) -> Vec<usize> {
    vec![o.framing as usize, o.codec as usize, o.null_second as usize, BATCHES.iter().position(|b| *b == o.batch).unwrap(), o.utf8_view as usize, o.strict as usize, o.layout as usize, !o.nullable as usize]
}
/// block compression only exists in object container files; union order only matters for nullable columns
/// `strict_mode` documents that `[T, "null"]` unions are rejected: that combination is not constructed
pub fn valid_point(o: &AOpts) -> bool {
    (o.codec == 0 || o.framing == 0) && !(o.strict && o.null_second)
}

/// `with_utf8_view` loads *textual* Avro fields as string views; a `uuid`-annotated string then comes
/// back as its text instead of FixedSizeBinary(16). Not claimed either way: not constructed.
fn col_allowed(c: &ACol, o: &AOpts) -> bool {
    !(o.utf8_view && c.kind == Kind::Uuid)
}

fn has_null_string(dt: &DataType, v: &V) -> bool {
    match (dt, v) {
        (DataType::Utf8 | DataType::LargeUtf8 | DataType::Utf8View, V::Null) => true,
        (DataType::List(f) | DataType::LargeList(f), V::L(items)) => items.iter().any(|x| has_null_string(f.data_type(), x)),
        (DataType::Struct(fs), V::St(items)) => fs.iter().zip(items).any(|(f, x)| has_null_string(f.data_type(), x)),
        (DataType::Map(e, _), V::M(items)) => {
            let DataType::Struct(kv) = e.data_type() else { return false };
            items.iter().any(|(_, x)| has_null_string(kv[1].data_type(), x))
        }
        _ => false,
    }
}

fn arrow_codec(c: u8) -> Option<CompressionCodec> {
    match c {
        0 => None,
        1 => Some(CompressionCodec::Deflate),
        2 => Some(CompressionCodec::Snappy),
        3 => Some(CompressionCodec::ZStandard),
        4 => Some(CompressionCodec::Bzip2),
        _ => Some(CompressionCodec::Xz),
    }
}
fn apache_codec(c: u8) -> apache_avro::Codec {
    match c {
        0 => apache_avro::Codec::Null,
        1 => apache_avro::Codec::Deflate(Default::default()),
        2 => apache_avro::Codec::Snappy,
        3 => apache_avro::Codec::Zstandard(Default::default()),
        4 => apache_avro::Codec::Bzip2(Default::default()),
        _ => apache_avro::Codec::Xz(Default::default()),
    }
}

// ---------------------------------------------------------------------------------------------
// case

#[derive(Clone, Debug)]
pub struct Case {
    pub opts: AOpts,
    pub cols: Vec<ACol>,
    pub cells: Vec<Vec<V>>,
}

#[derive(Debug)]
pub struct Fail {
    pub stage: &'static str,
    pub col: Option<usize>,
    pub msg: String,
}

fn col_nullable(c: &ACol, o: &AOpts) -> bool {
    o.nullable || c.dt == DataType::Null
}

fn arrow_field(name: &str, c: &ACol, nullable: bool) -> Field {
    let mut md = HashMap::new();
    match c.kind {
        Kind::Plain => {}
        Kind::Uuid => {
            md.insert("logicalType".to_string(), "uuid".to_string());
        }
        Kind::Enum => {
            md.insert(AVRO_ENUM_SYMBOLS_METADATA_KEY.to_string(), serde_json::to_string(&ENUM_SYMBOLS).unwrap());
        }
        Kind::FixedDecimal(n) => {
            md.insert("size".to_string(), n.to_string());
        }
    }
    Field::new(name, c.dt.clone(), nullable).with_metadata(md)
}

fn build_col(c: &ACol, vals: &[V]) -> ArrayRef {
    match c.kind {
        Kind::Enum => {
            // dictionary values are exactly the enum symbols
            let keys: Int32Array = vals
                .iter()
                .map(|v| match v {
                    V::Null => None,
                    V::S(s) => Some(ENUM_SYMBOLS.iter().position(|x| x == s).expect("enum symbol") as i32),
                    o => panic!("harness: enum value {o:?}"),
                })
                .collect();
            Arc::new(DictionaryArray::<Int32Type>::try_new(keys, Arc::new(StringArray::from(ENUM_SYMBOLS.to_vec()))).unwrap())
        }
        _ => build(&c.dt, vals),
    }
}

fn build_col_layout(c: &ACol, vals: &[V], layout: u8) -> ArrayRef {
    if layout == 0 {
        return build_col(c, vals);
    }
    let lead = if layout == 1 { 1 } else { 9 };
    let pad = aalphabet(c).last().cloned().unwrap_or(V::Null);
    let mut all: Vec<V> = vec![pad.clone(); lead];
    all.extend(vals.iter().cloned());
    all.push(pad);
    build_col(c, &all).slice(lead, vals.len())
}

/// moves "null" to the second position in every two-branch nullable union of an Avro schema JSON
fn null_second(v: &mut serde_json::Value) {
    match v {
        serde_json::Value::Array(a) => {
            for x in a.iter_mut() {
                null_second(x);
            }
            if a.len() == 2 && a[0] == serde_json::Value::String("null".into()) {
                a.swap(0, 1);
            }
        }
        serde_json::Value::Object(o) => {
            for (k, x) in o.iter_mut() {
                if k != "default" {
                    null_second(x);
                }
            }
        }
        _ => {}
    }
}

/// sort map entries by key (apache-avro decodes maps into a HashMap)
fn sort_maps(v: &V) -> V {
    match v {
        V::M(items) => {
            let mut it: Vec<(V, V)> = items.iter().map(|(k, x)| (k.clone(), sort_maps(x))).collect();
            it.sort_by(|a, b| a.0.show().cmp(&b.0.show()));
            V::M(it)
        }
        V::L(items) => V::L(items.iter().map(sort_maps).collect()),
        V::St(items) => V::St(items.iter().map(sort_maps).collect()),
        o => o.clone(),
    }
}

fn i256_from_be(bytes: &[u8]) -> i256 {
    let neg = bytes.first().map(|b| b & 0x80 != 0).unwrap_or(false);
    let mut buf = [if neg { 0xffu8 } else { 0 }; 32];
    let n = bytes.len().min(32);
    buf[32 - n..].copy_from_slice(&bytes[bytes.len() - n..]);
    i256::from_be_bytes(buf)
}

/// minimal two's-complement big-endian bytes
fn i256_to_be_min(v: i256) -> Vec<u8> {
    let b = v.to_be_bytes();
    let neg = v < i256::ZERO;
    let mut i = 0;
    while i < 31 {
        let (cur, next) = (b[i], b[i + 1]);
        if (!neg && cur == 0 && next & 0x80 == 0) || (neg && cur == 0xff && next & 0x80 != 0) {
            i += 1;
        } else {
            break;
        }
    }
    b[i..].to_vec()
}

/// apache-avro value -> logical value (maps sorted by key)
fn av_to_v(v: &AV) -> Result<V, String> {
    Ok(match v {
        AV::Null => V::Null,
        AV::Boolean(b) => V::Bool(*b),
        AV::Int(i) | AV::Date(i) | AV::TimeMillis(i) => V::I(*i as i128),
        AV::Long(i) | AV::TimeMicros(i) | AV::TimestampMillis(i) | AV::TimestampMicros(i) | AV::TimestampNanos(i) | AV::LocalTimestampMillis(i) | AV::LocalTimestampMicros(i) | AV::LocalTimestampNanos(i) => V::I(*i as i128),
        AV::Float(f) => V::F32(f.to_bits()),
        AV::Double(f) => V::F64(f.to_bits()),
        AV::Bytes(b) => V::B(b.clone()),
        AV::String(s) => V::S(s.clone()),
        AV::Fixed(_, b) => V::B(b.clone()),
        AV::Enum(_, s) => V::S(s.clone()),
        AV::Union(_, b) => av_to_v(b)?,
        AV::Array(a) => V::L(a.iter().map(av_to_v).collect::<Result<Vec<_>, _>>()?),
        AV::Map(m) => {
            let mut items: Vec<(V, V)> = vec![];
            for (k, x) in m {
                items.push((V::s(k), av_to_v(x)?));
            }
            items.sort_by(|a, b| a.0.show().cmp(&b.0.show()));
            V::M(items)
        }
        AV::Record(fs) => V::St(fs.iter().map(|(_, x)| av_to_v(x)).collect::<Result<Vec<_>, _>>()?),
        AV::Decimal(d) => {
            let bytes: Vec<u8> = Vec::<u8>::try_from(d).map_err(|e| format!("decimal bytes: {e}"))?;
            V::Dec(i256_from_be(&bytes))
        }
        AV::Duration(d) => V::Mdn(u32::from(d.months()) as i32, u32::from(d.days()) as i32, u32::from(d.millis()) as i64 * 1_000_000),
        AV::Uuid(u) => V::B(u.as_bytes().to_vec()),
        AV::BigDecimal(_) => return Err("unexpected big-decimal".into()),
    })
}

/// compares apache-avro values through the logical model (floats by bit pattern)
fn av_same(a: &[AV], b: &[AV]) -> bool {
    a.len() == b.len() && a.iter().zip(b).all(|(x, y)| matches!((av_to_v(x), av_to_v(y)), (Ok(p), Ok(q)) if p == q))
}

// ---- Parsing Canonical Form + CRC-64-AVRO written from the Avro 1.11 specification
// ("Transforming into Parsing Canonical Form" and "Schema Fingerprints"); used as the independent
// oracle for single-object headers. (apache-avro 0.22 keeps `{"type":"int"}` instead of `"int"` for a
// stripped logical type, so its fingerprint deviates from the specification for such schemas; it is
// cross-checked only on schemas without logical types.)
fn pcf(v: &serde_json::Value, out: &mut String) {
    use serde_json::Value as S;
    match v {
        S::String(s) => {
            out.push_str(&serde_json::to_string(s).unwrap());
        }
        S::Array(a) => {
            out.push('[');
            for (i, x) in a.iter().enumerate() {
                if i > 0 {
                    out.push(',');
                }
                pcf(x, out);
            }
            out.push(']');
        }
        S::Object(o) => {
            let keep = ["name", "type", "fields", "symbols", "items", "values", "size"];
            let present: Vec<&str> = keep.iter().copied().filter(|k| o.contains_key(*k)).collect();
            if present == ["type"] {
                // [PRIMITIVES] / nested type object without other parsing-relevant attributes
                return pcf(&o["type"], out);
            }
            out.push('{');
            for (i, k) in present.iter().enumerate() {
                if i > 0 {
                    out.push(',');
                }
                out.push_str(&format!("\"{k}\":"));
                match (*k, &o[*k]) {
                    ("size", S::Number(n)) => out.push_str(&n.to_string()),
                    ("size", S::String(n)) => out.push_str(n.trim_start_matches('0')),
                    ("fields", S::Array(fs)) => {
                        out.push('[');
                        for (j, f) in fs.iter().enumerate() {
                            if j > 0 {
                                out.push(',');
                            }
                            // a field keeps name and type only
                            out.push_str(&format!("{{\"name\":{},\"type\":", serde_json::to_string(&f["name"]).unwrap()));
                            pcf(&f["type"], out);
                            out.push('}');
                        }
                        out.push(']');
                    }
                    (_, x) => pcf(x, out),
                }
            }
            out.push('}');
        }
        other => out.push_str(&other.to_string()),
    }
}

fn crc64_avro(data: &[u8]) -> u64 {
    const EMPTY: u64 = 0xc15d213aa4d7a795;
    let mut table = [0u64; 256];
    for (i, t) in table.iter_mut().enumerate() {
        let mut fp = i as u64;
        for _ in 0..8 {
            fp = (fp >> 1) ^ (EMPTY & (0u64.wrapping_sub(fp & 1)));
        }
        *t = fp;
    }
    let mut fp = EMPTY;
    for b in data {
        fp = (fp >> 8) ^ table[((fp ^ *b as u64) & 0xff) as usize];
    }
    fp
}

/// C3 01 + little-endian CRC-64-AVRO of the parsing canonical form
fn soe_header(schema_json: &str) -> Result<Vec<u8>, String> {
    let v: serde_json::Value = serde_json::from_str(schema_json).map_err(|e| format!("schema json: {e}"))?;
    let mut canon = String::new();
    pcf(&v, &mut canon);
    let fp = crc64_avro(canon.as_bytes());
    if !schema_json.contains("logicalType") {
        let s = apache_avro::Schema::parse_str(schema_json).map_err(|e| format!("apache-avro rejects {schema_json}: {e}"))?;
        let theirs = s.fingerprint::<apache_avro::rabin::Rabin>().bytes;
        if theirs != fp.to_le_bytes() {
            return Err(format!("HARNESS: own canonical form {canon} / fingerprint disagrees with apache-avro ({})", s.canonical_form()));
        }
    }
    let mut h = vec![0xC3, 0x01];
    h.extend(fp.to_le_bytes());
    Ok(h)
}

/// model value as apache-avro sees it: UTF-8 view / large variants are the same logical value; the
/// apache value of a uuid column is the 16 bytes
fn expect_for_apache(v: &V) -> V {
    sort_maps(v)
}

fn arrow_schema_for(c: &Case) -> Result<Schema, Fail> {
    let fields: Vec<Field> = c.cols.iter().enumerate().map(|(i, col)| arrow_field(&format!("c{i}"), col, col_nullable(col, &c.opts))).collect();
    let schema = Schema::new(fields);
    if !c.opts.null_second {
        return Ok(schema);
    }
    let avro = AvroSchema::try_from(&schema).map_err(|e| Fail { stage: "schema-conversion", col: None, msg: e.to_string() })?;
    let mut j: serde_json::Value = serde_json::from_str(&avro.json_string).map_err(|e| Fail { stage: "harness", col: None, msg: format!("avro schema json: {e}") })?;
    null_second(&mut j);
    let mut md = HashMap::new();
    md.insert(SCHEMA_METADATA_KEY.to_string(), j.to_string());
    Ok(schema.with_metadata(md))
}

fn collect_batches(batches: &[RecordBatch], ncols: usize) -> Result<Vec<Vec<V>>, Fail> {
    let mut got: Vec<Vec<V>> = vec![vec![]; ncols];
    for b in batches {
        if b.num_columns() != ncols {
            return Err(Fail { stage: "read-schema", col: None, msg: format!("{} columns read, {ncols} written", b.num_columns()) });
        }
        for (i, col) in b.columns().iter().enumerate() {
            if let Err(e) = col.to_data().validate_full() {
                return Err(Fail { stage: "wf", col: Some(i), msg: format!("validate_full: {e}") });
            }
            if matches!(col.data_type(), DataType::Union(..)) {
                return Err(Fail { stage: "read-schema", col: Some(i), msg: "column read as a union".into() });
            }
            got[i].extend(extract(col.as_ref()));
        }
    }
    Ok(got)
}

/// arrow-avro reads `bytes` (OCF) or framed messages
fn arrow_read(o: &AOpts, bytes: &[u8], writer_schema_json: &str) -> Result<Result<Vec<RecordBatch>, String>, Fail> {
    let r = catch(|| -> Result<Vec<RecordBatch>, String> {
        let rb = ReaderBuilder::new().with_batch_size(o.batch).with_utf8_view(o.utf8_view).with_strict_mode(o.strict);
        if o.framing == 0 {
            let reader = rb.build(std::io::Cursor::new(bytes)).map_err(|e| e.to_string())?;
            reader.collect::<Result<Vec<_>, _>>().map_err(|e| e.to_string())
        } else {
            let store = if o.framing == 1 {
                let mut s = SchemaStore::new();
                s.register(AvroSchema::new(writer_schema_json.to_string())).map_err(|e| e.to_string())?;
                s
            } else {
                let mut s = SchemaStore::new_with_type(FingerprintAlgorithm::Id);
                s.set(Fingerprint::Id(42), AvroSchema::new(writer_schema_json.to_string())).map_err(|e| e.to_string())?;
                s
            };
            let mut dec = rb.with_writer_schema_store(store).build_decoder().map_err(|e| e.to_string())?;
            let mut out = vec![];
            let mut off = 0;
            while off < bytes.len() {
                let n = dec.decode(&bytes[off..]).map_err(|e| e.to_string())?;
                off += n;
                if dec.batch_is_full() || n == 0 {
                    match dec.flush().map_err(|e| e.to_string())? {
                        Some(b) => out.push(b),
                        None if n == 0 => return Err(format!("decoder made no progress at byte {off} of {}", bytes.len())),
                        None => {}
                    }
                }
            }
            if let Some(b) = dec.flush().map_err(|e| e.to_string())? {
                out.push(b);
            }
            Ok(out)
        }
    });
    match r {
        Err(p) => Err(Fail { stage: "read-panic", col: None, msg: format!("{} ({}:{})", p.fingerprint(), p.file, p.line) }),
        Ok(x) => Ok(x),
    }
}

fn hexs(b: &[u8]) -> String {
    b.iter().take(200).map(|x| format!("{x:02x}")).collect()
}

pub fn run_case(c: &Case) -> Result<String, Fail> {
    let o = &c.opts;
    let ncols = c.cols.len();
    let nrows = c.cells.first().map(|x| x.len()).unwrap_or(0);
    let schema = arrow_schema_for(c)?;
    let arrays: Vec<ArrayRef> = (0..ncols).map(|i| build_col_layout(&c.cols[i], &c.cells[i], o.layout)).collect();
    let batch = RecordBatch::try_new_with_options(Arc::new(schema.clone()), arrays, &arrow_array::RecordBatchOptions::new().with_row_count(Some(nrows))).map_err(|e| Fail { stage: "harness", col: None, msg: format!("batch: {e}") })?;

    // ---- write with arrow-avro
    type W = Result<(Vec<u8>, Vec<Vec<u8>>, String), String>;
    let wr = catch(|| -> W {
        let wb = || WriterBuilder::new(schema.clone()).with_compression(arrow_codec(o.codec));
        // raw bodies for the independent decoder (always produced; same encoder plan)
        let mut enc = wb().build_encoder::<AvroBinaryFormat>().map_err(|e| e.to_string())?;
        enc.encode(&batch).map_err(|e| e.to_string())?;
        let avro_json = enc.schema().metadata().get(SCHEMA_METADATA_KEY).cloned().unwrap_or_default();
        let rows: Vec<Vec<u8>> = enc.flush().iter().map(|b| b.to_vec()).collect();
        let bytes = match o.framing {
            0 => {
                let mut w = wb().build::<_, AvroOcfFormat>(Vec::new()).map_err(|e| e.to_string())?;
                w.write(&batch).map_err(|e| e.to_string())?;
                w.finish().map_err(|e| e.to_string())?;
                w.into_inner()
            }
            1 => {
                let mut w = wb().with_fingerprint_strategy(FingerprintStrategy::Rabin).build::<_, AvroSoeFormat>(Vec::new()).map_err(|e| e.to_string())?;
                w.write(&batch).map_err(|e| e.to_string())?;
                w.finish().map_err(|e| e.to_string())?;
                w.into_inner()
            }
            _ => {
                let mut w = wb().with_fingerprint_strategy(FingerprintStrategy::Id(42)).build::<_, AvroSoeFormat>(Vec::new()).map_err(|e| e.to_string())?;
                w.write(&batch).map_err(|e| e.to_string())?;
                w.finish().map_err(|e| e.to_string())?;
                w.into_inner()
            }
        };
        Ok((bytes, rows, avro_json))
    });
    let (bytes, rows, avro_json) = match wr {
        Err(p) => return Err(Fail { stage: "write-panic", col: None, msg: format!("{} ({}:{})", p.fingerprint(), p.file, p.line) }),
        Ok(Err(e)) => return Err(Fail { stage: "write-error", col: None, msg: e }),
        Ok(Ok(x)) => x,
    };
    if rows.len() != nrows {
        return Err(Fail { stage: "write-row-count", col: None, msg: format!("encoder produced {} rows for {nrows}", rows.len()) });
    }
    let expect: Vec<Vec<V>> = c.cells.clone();
    let expect_ap: Vec<Vec<V>> = expect.iter().map(|col| col.iter().map(expect_for_apache).collect()).collect();

    // ---- (ii) apache-avro decodes the bytes
    let ap = catch(|| -> Result<Vec<AV>, String> {
        let aschema = apache_avro::Schema::parse_str(&avro_json).map_err(|e| format!("apache-avro rejects the writer schema {avro_json}: {e}"))?;
        // raw bodies
        let mut vals = vec![];
        for r in &rows {
            let mut rd = &r[..];
            #[allow(deprecated)]
            let v = apache_avro::from_avro_datum(&aschema, &mut rd, None).map_err(|e| format!("from_avro_datum: {e}; body={}", hexs(r)))?;
            if !rd.is_empty() {
                return Err(format!("from_avro_datum left {} bytes; body={}", rd.len(), hexs(r)));
            }
            vals.push(v);
        }
        match o.framing {
            0 => {
                let reader = apache_avro::Reader::new(&bytes[..]).map_err(|e| format!("apache Reader::new: {e}"))?;
                let ocf: Vec<AV> = reader.collect::<Result<Vec<_>, _>>().map_err(|e| format!("apache Reader: {e}"))?;
                if !av_same(&ocf, &vals) {
                    return Err(format!("OCF rows {ocf:?} differ from raw bodies {vals:?}"));
                }
            }
            1 => {
                let sor = apache_avro::GenericSingleObjectReader::builder().schema(aschema.clone()).header(soe_header(&avro_json)?).build().map_err(|e| format!("single object reader: {e}"))?;
                let mut rd = &bytes[..];
                let mut soe = vec![];
                while !rd.is_empty() {
                    soe.push(sor.read_value(&mut rd).map_err(|e| format!("single-object frame rejected by apache-avro: {e}; bytes={}", hexs(&bytes)))?);
                }
                if !av_same(&soe, &vals) {
                    return Err(format!("single-object rows {soe:?} differ from raw bodies {vals:?}"));
                }
            }
            _ => {
                // Confluent wire format: 0x00, 4-byte big-endian id, body
                let mut rd = &bytes[..];
                let mut got = vec![];
                while !rd.is_empty() {
                    if rd.len() < 5 || rd[0] != 0 || rd[1..5] != 42u32.to_be_bytes() {
                        return Err(format!("bad Confluent prefix; bytes={}", hexs(&bytes)));
                    }
                    rd = &rd[5..];
                    #[allow(deprecated)]
                    let v = apache_avro::from_avro_datum(&aschema, &mut rd, None).map_err(|e| format!("from_avro_datum (confluent): {e}"))?;
                    got.push(v);
                }
                if !av_same(&got, &vals) {
                    return Err(format!("Confluent rows {got:?} differ from raw bodies {vals:?}"));
                }
            }
        }
        Ok(vals)
    });
    let vals = match ap {
        Err(p) => return Err(Fail { stage: "independent-decoder-panic", col: None, msg: format!("{}:{} {}", p.file, p.line, p.msg) }),
        Ok(Err(e)) => return Err(Fail { stage: "independent-decode", col: None, msg: e }),
        Ok(Ok(v)) => v,
    };
    for (r, v) in vals.iter().enumerate() {
        let AV::Record(fs) = v else { return Err(Fail { stage: "independent-decode", col: None, msg: format!("row {r} is not a record: {v:?}") }) };
        if fs.len() != ncols {
            return Err(Fail { stage: "independent-decode", col: None, msg: format!("row {r} has {} fields", fs.len()) });
        }
        for (i, (_, x)) in fs.iter().enumerate() {
            let got = av_to_v(x).map_err(|e| Fail { stage: "independent-decode", col: Some(i), msg: e })?;
            if got != expect_ap[i][r] {
                return Err(Fail { stage: "independent-value", col: Some(i), msg: format!("apache-avro decodes row {r} column {i} ({}) as {} ({x:?}), expected {}; body={}", c.cols[i].dt, got.show(), expect_ap[i][r].show(), hexs(&rows[r])) });
            }
        }
    }

    // ---- (i) arrow-avro reads back
    let batches = match arrow_read(o, &bytes, &avro_json)? {
        Err(e) => return Err(Fail { stage: "read-error", col: None, msg: format!("{e}; bytes={}", hexs(&bytes)) }),
        Ok(b) => b,
    };
    for b in &batches {
        if b.num_rows() > o.batch || b.num_rows() == 0 {
            return Err(Fail { stage: "read-batch-size", col: None, msg: format!("batch of {} rows with batch_size {}", b.num_rows(), o.batch) });
        }
    }
    let got = collect_batches(&batches, ncols)?;
    let total: usize = batches.iter().map(|b| b.num_rows()).sum();
    if total != nrows {
        return Err(Fail { stage: "read-row-count", col: None, msg: format!("read {total} rows, wrote {nrows}") });
    }
    for i in 0..ncols {
        if got[i] != expect[i] {
            return Err(Fail { stage: "read-value", col: Some(i), msg: format!("column {i} ({}) read back as {} expected {}", c.cols[i].dt, show_col(&got[i]), show_col(&expect[i])) });
        }
    }
    let same_type = batches.first().map(|b| (0..ncols).all(|i| b.column(i).data_type().equals_datatype(&c.cols[i].dt))).unwrap_or(true);
    Ok(format!("avro-rt:ok:framing={}:codec={}:type-{}", o.framing, CODEC_NAMES[o.codec as usize], if same_type { "same" } else { "widened" }))
}

// ---------------------------------------------------------------------------------------------
// (iii) apache-avro as the writer

struct NameGen(usize);
impl NameGen {
    fn next(&mut self, p: &str) -> String {
        self.0 += 1;
        format!("{p}{}", self.0)
    }
}

/// Avro schema JSON written by hand from the Arrow type (independent of arrow-avro's conversion)
fn schema_json(c: &ACol, nullable: bool, null_second: bool, ng: &mut NameGen) -> serde_json::Value {
    use DataType::*;
    let lt = |t: &str, l: &str| serde_json::json!({"type": t, "logicalType": l});
    let sub = |f: &arrow_schema::FieldRef, ng: &mut NameGen| schema_json(&plain(f.data_type().clone()), f.is_nullable(), null_second, ng);
    let base = match &c.dt {
        Null => serde_json::json!("null"),
        Boolean => serde_json::json!("boolean"),
        Int32 => serde_json::json!("int"),
        Int64 => serde_json::json!("long"),
        Float32 => serde_json::json!("float"),
        Float64 => serde_json::json!("double"),
        Utf8 => serde_json::json!("string"),
        Binary => serde_json::json!("bytes"),
        Date32 => lt("int", "date"),
        Time32(TimeUnit::Millisecond) => lt("int", "time-millis"),
        Time64(TimeUnit::Microsecond) => lt("long", "time-micros"),
        Timestamp(TimeUnit::Millisecond, Some(_)) => lt("long", "timestamp-millis"),
        Timestamp(TimeUnit::Microsecond, Some(_)) => lt("long", "timestamp-micros"),
        Timestamp(TimeUnit::Nanosecond, Some(_)) => lt("long", "timestamp-nanos"),
        Timestamp(TimeUnit::Millisecond, None) => lt("long", "local-timestamp-millis"),
        Timestamp(TimeUnit::Microsecond, None) => lt("long", "local-timestamp-micros"),
        Timestamp(TimeUnit::Nanosecond, None) => lt("long", "local-timestamp-nanos"),
        Interval(IntervalUnit::MonthDayNano) => serde_json::json!({"type":"fixed","name":ng.next("Dur"),"size":12,"logicalType":"duration"}),
        FixedSizeBinary(n) => match c.kind {
            Kind::Uuid => lt("string", "uuid"),
            _ => serde_json::json!({"type":"fixed","name":ng.next("Fx"),"size":n}),
        },
        Decimal128(p, s) | Decimal256(p, s) => match c.kind {
            Kind::FixedDecimal(n) => serde_json::json!({"type":"fixed","name":ng.next("Dec"),"size":n,"logicalType":"decimal","precision":p,"scale":s}),
            _ => serde_json::json!({"type":"bytes","logicalType":"decimal","precision":p,"scale":s}),
        },
        Dictionary(..) => serde_json::json!({"type":"enum","name":ng.next("En"),"symbols":ENUM_SYMBOLS}),
        List(f) => {
            let items = sub(f, ng);
            serde_json::json!({"type":"array","items":items})
        }
        Map(entries, _) => {
            let DataType::Struct(kv) = entries.data_type() else { unreachable!() };
            let values = sub(&kv[1], ng);
            serde_json::json!({"type":"map","values":values})
        }
        Struct(fs) => {
            let name = ng.next("Rec");
            let fields: Vec<serde_json::Value> = fs.iter().map(|f| serde_json::json!({"name": f.name(), "type": sub(f, ng)})).collect();
            serde_json::json!({"type":"record","name":name,"fields":fields})
        }
        o => panic!("harness: no hand-written avro schema for {o:?}"),
    };
    if nullable && c.dt != Null {
        if null_second { serde_json::json!([base, "null"]) } else { serde_json::json!(["null", base]) }
    } else {
        base
    }
}

/// model value -> apache-avro value for that hand-written schema
fn v_to_av(c: &ACol, nullable: bool, null_second: bool, v: &V) -> AV {
    use DataType::*;
    let wrap = |inner: AV, is_null: bool| -> AV {
        if nullable && c.dt != Null {
            let idx = if is_null == null_second { 1 } else { 0 };
            AV::Union(idx, Box::new(inner))
        } else {
            inner
        }
    };
    if v.is_null() {
        return wrap(AV::Null, true);
    }
    let sub = |f: &arrow_schema::FieldRef, x: &V| v_to_av(&plain(f.data_type().clone()), f.is_nullable(), null_second, x);
    let inner = match (&c.dt, v) {
        (Boolean, V::Bool(b)) => AV::Boolean(*b),
        (Int32, V::I(i)) => AV::Int(*i as i32),
        (Int64, V::I(i)) => AV::Long(*i as i64),
        (Float32, V::F32(b)) => AV::Float(f32::from_bits(*b)),
        (Float64, V::F64(b)) => AV::Double(f64::from_bits(*b)),
        (Utf8, V::S(s)) => AV::String(s.clone()),
        (Binary, V::B(b)) => AV::Bytes(b.clone()),
        (Date32, V::I(i)) => AV::Date(*i as i32),
        (Time32(_), V::I(i)) => AV::TimeMillis(*i as i32),
        (Time64(_), V::I(i)) => AV::TimeMicros(*i as i64),
        (Timestamp(TimeUnit::Millisecond, Some(_)), V::I(i)) => AV::TimestampMillis(*i as i64),
        (Timestamp(TimeUnit::Microsecond, Some(_)), V::I(i)) => AV::TimestampMicros(*i as i64),
        (Timestamp(TimeUnit::Nanosecond, Some(_)), V::I(i)) => AV::TimestampNanos(*i as i64),
        (Timestamp(TimeUnit::Millisecond, None), V::I(i)) => AV::LocalTimestampMillis(*i as i64),
        (Timestamp(TimeUnit::Microsecond, None), V::I(i)) => AV::LocalTimestampMicros(*i as i64),
        (Timestamp(TimeUnit::Nanosecond, None), V::I(i)) => AV::LocalTimestampNanos(*i as i64),
        (Interval(_), V::Mdn(m, d, n)) => AV::Duration(apache_avro::Duration::new(apache_avro::Months::new(*m as u32), apache_avro::Days::new(*d as u32), apache_avro::Millis::new((*n / 1_000_000) as u32))),
        (FixedSizeBinary(n), V::B(b)) => match c.kind {
            Kind::Uuid => AV::Uuid(apache_avro::Uuid::from_slice(b).unwrap()),
            _ => AV::Fixed(*n as usize, b.clone()),
        },
        (Decimal128(..) | Decimal256(..), V::Dec(x)) => match c.kind {
            Kind::FixedDecimal(n) => {
                let full = x.to_be_bytes();
                AV::Decimal(apache_avro::Decimal::from(full[32 - n..].to_vec()))
            }
            _ => AV::Decimal(apache_avro::Decimal::from(i256_to_be_min(*x))),
        },
        (Dictionary(..), V::S(s)) => AV::Enum(ENUM_SYMBOLS.iter().position(|x| x == s).unwrap() as u32, s.clone()),
        (List(f), V::L(items)) => AV::Array(items.iter().map(|x| sub(f, x)).collect()),
        (Map(entries, _), V::M(items)) => {
            let DataType::Struct(kv) = entries.data_type() else { unreachable!() };
            AV::Map(
                items
                    .iter()
                    .map(|(k, x)| {
                        let V::S(k) = k else { panic!("harness: map key") };
                        (k.clone(), sub(&kv[1], x))
                    })
                    .collect(),
            )
        }
        (Struct(fs), V::St(items)) => AV::Record(fs.iter().zip(items).map(|(f, x)| (f.name().clone(), sub(f, x))).collect()),
        (d, x) => panic!("harness: v_to_av {d:?} {x:?}"),
    };
    wrap(inner, false)
}

/// (iii): apache-avro writes, arrow-avro reads
pub fn run_case_foreign(c: &Case) -> Result<String, Fail> {
    let o = &c.opts;
    let ncols = c.cols.len();
    let nrows = c.cells.first().map(|x| x.len()).unwrap_or(0);
    let mut ng = NameGen(0);
    let fields: Vec<serde_json::Value> = (0..ncols).map(|i| serde_json::json!({"name": format!("c{i}"), "type": schema_json(&c.cols[i], col_nullable(&c.cols[i], o), o.null_second, &mut ng)})).collect();
    let sj = serde_json::json!({"type":"record","name":"Row","fields":fields}).to_string();
    let w = catch(|| -> Result<Vec<u8>, String> {
        let aschema = apache_avro::Schema::parse_str(&sj).map_err(|e| format!("harness schema {sj}: {e}"))?;
        let rows: Vec<AV> = (0..nrows).map(|r| AV::Record((0..ncols).map(|i| (format!("c{i}"), v_to_av(&c.cols[i], col_nullable(&c.cols[i], o), o.null_second, &c.cells[i][r]))).collect())).collect();
        match o.framing {
            0 => {
                let mut w = apache_avro::Writer::with_codec(&aschema, Vec::new(), apache_codec(o.codec)).map_err(|e| e.to_string())?;
                for r in rows {
                    w.append_value(r).map_err(|e| format!("apache append: {e}"))?;
                }
                w.into_inner().map_err(|e| e.to_string())
            }
            f => {
                let header = soe_header(&sj)?;
                let mut out = vec![];
                for r in rows {
                    if f == 1 {
                        out.extend(&header);
                    } else {
                        out.push(0);
                        out.extend(42u32.to_be_bytes());
                    }
                    #[allow(deprecated)]
                    out.extend(apache_avro::to_avro_datum(&aschema, r).map_err(|e| format!("to_avro_datum: {e}"))?);
                }
                Ok(out)
            }
        }
    });
    let bytes = match w {
        Err(p) => return Err(Fail { stage: "harness", col: None, msg: format!("apache-avro writer panicked: {}:{} {}", p.file, p.line, p.msg) }),
        Ok(Err(e)) => return Err(Fail { stage: "harness", col: None, msg: format!("apache-avro writer: {e}") }),
        Ok(Ok(b)) => b,
    };
    let batches = match arrow_read(o, &bytes, &sj)? {
        Err(e) => return Err(Fail { stage: "foreign-read-error", col: None, msg: format!("{e}; schema={sj}; bytes={}", hexs(&bytes)) }),
        Ok(b) => b,
    };
    let got = collect_batches(&batches, ncols)?;
    let total: usize = batches.iter().map(|b| b.num_rows()).sum();
    if total != nrows {
        return Err(Fail { stage: "foreign-read-row-count", col: None, msg: format!("read {total} rows, apache-avro wrote {nrows}; schema={sj}") });
    }
    for i in 0..ncols {
        // apache-avro writes maps in HashMap order: compare as key-sorted maps
        let g: Vec<V> = got[i].iter().map(sort_maps).collect();
        let e: Vec<V> = c.cells[i].iter().map(sort_maps).collect();
        if g != e {
            return Err(Fail { stage: "foreign-read-value", col: Some(i), msg: format!("column {i} ({}) written by apache-avro read as {} expected {}; schema={sj}", c.cols[i].dt, show_col(&g), show_col(&e)) });
        }
    }
    Ok(format!("avro-foreign:ok:framing={}:codec={}", o.framing, CODEC_NAMES[o.codec as usize]))
}

// ---------------------------------------------------------------------------------------------
// blocks

#[derive(Clone)]
pub enum Mode {
    Product,
    Rotation(u64),
}

#[derive(Clone)]
pub struct Block {
    pub family: &'static str,
    pub foreign: bool,
    pub opts: AOpts,
    pub cols: Vec<ACol>,
    pub rows: usize,
    pub alpha: Vec<Arc<Vec<V>>>,
    pub mode: Mode,
}

impl Block {
    pub fn size(&self) -> u64 {
        match self.mode {
            Mode::Product => self.alpha.iter().map(|a| (a.len() as u64).pow(self.rows as u32)).product(),
            Mode::Rotation(n) => n,
        }
    }
    pub fn case(&self, local: u64) -> Case {
        let ncols = self.cols.len();
        let mut cells: Vec<Vec<V>> = vec![vec![]; ncols];
        match self.mode {
            Mode::Product => {
                let mut i = local;
                for _ in 0..self.rows {
                    for c in 0..ncols {
                        let n = self.alpha[c].len() as u64;
                        cells[c].push(self.alpha[c][(i % n) as usize].clone());
                        i /= n;
                    }
                }
            }
            Mode::Rotation(_) => {
                for c in 0..ncols {
                    let n = self.alpha[c].len();
                    for r in 0..self.rows {
                        cells[c].push(self.alpha[c][(local as usize + r * (c + 1) + c) % n].clone());
                    }
                }
            }
        }
        Case { opts: self.opts.clone(), cols: self.cols.clone(), cells }
    }
}

fn col_alpha(c: &ACol, o: &AOpts) -> Vec<V> {
    let mut a = aalphabet(c);
    if col_nullable(c, o) {
        a.push(V::Null);
    }
    a
}

pub fn build_blocks(ctx: &Ctx) -> Vec<Block> {
    let mut blocks = vec![];
    // ---- long values (strings, bytes, fixed, arrays, maps): default point, every 1-deviation point and
    // every codec, in both directions
    {
        let lens = long_lengths(!ctx.quick());
        let strs: Vec<V> = lens.iter().flat_map(|l| [V::S(ascii_ramp(*l)), V::S(straddle(*l, "é", 1)), V::S(straddle(*l, "😀", 2))]).collect();
        let bins: Vec<V> = lens.iter().flat_map(|l| [V::B(bytes_ramp(*l)), V::B(bytes_ff00(*l))]).collect();
        let lists: Vec<V> = lens.iter().filter(|l| **l <= 1025).map(|l| V::L((0..*l).map(|i| if i % 7 == 3 { V::Null } else { V::I(i as i128 * 37 - 5) }).collect())).collect();
        let maps: Vec<V> = lens.iter().filter(|l| **l <= 129).map(|l| V::M((0..*l).map(|i| (V::S(format!("k{i}")), if i % 5 == 2 { V::Null } else { V::I(i as i128) })).collect())).collect();
        let mut points = dev_points(&DIM_SIZES, 1);
        points.retain(|p| valid_point(&opts_from_point(p)));
        for p in points {
            let o = opts_from_point(&p);
            let with_null = |mut a: Vec<V>| {
                if o.nullable {
                    a.push(V::Null);
                }
                Arc::new(a)
            };
            let mut cols: Vec<(ACol, Arc<Vec<V>>)> = vec![
                (plain(DataType::Utf8), with_null(strs.clone())),
                (plain(DataType::Binary), with_null(bins.clone())),
                (plain(DataType::List(field("item", DataType::Int32, true))), with_null(lists.clone())),
                (plain(map_of(DataType::Int64, true)), with_null(maps.clone())),
            ];
            for l in &lens {
                cols.push((plain(DataType::FixedSizeBinary(*l as i32)), with_null(vec![V::B(bytes_ramp(*l)), V::B(bytes_ff00(*l))])));
            }
            for (col, alpha) in cols {
                let n = alpha.len() as u64;
                for foreign in [false, true] {
                    if foreign && o.layout != 0 {
                        continue;
                    }
                    blocks.push(Block { family: if foreign { "foreign-long" } else { "rt-long" }, foreign, opts: o.clone(), cols: vec![col.clone()], rows: 1, alpha: vec![alpha.clone()], mode: Mode::Product });
                    blocks.push(Block { family: if foreign { "foreign-long" } else { "rt-long" }, foreign, opts: o.clone(), cols: vec![col.clone()], rows: 3, alpha: vec![alpha.clone()], mode: Mode::Rotation(n) });
                }
            }
        }
    }
    let same = grid_same();
    let widened = grid_widened();
    let max_rows = ctx.pick(2, 3);
    // ---- options other than the codec: <= k deviations, full products of small columns
    let mut sizes = DIM_SIZES;
    sizes[1] = 1;
    for p in dev_points(&sizes, ctx.pick(2, 4)) {
        let o = opts_from_point(&p);
        if !valid_point(&o) {
            continue;
        }
        for (gi, grid) in [&same, &widened].iter().enumerate() {
            for col in grid.iter() {
                if !col_allowed(col, &o) {
                    continue;
                }
                let alpha = Arc::new(col_alpha(col, &o));
                if alpha.is_empty() {
                    continue;
                }
                for rows in 0..=max_rows {
                    if rows >= 2 && alpha.len() > 13 - rows * 2 && ctx.quick() {
                        // large alphabets: rotations instead of the full product
                        blocks.push(Block { family: if gi == 0 { "rt-1col" } else { "rt-widened" }, foreign: false, opts: o.clone(), cols: vec![col.clone()], rows, alpha: vec![alpha.clone()], mode: Mode::Rotation(alpha.len() as u64) });
                        continue;
                    }
                    if rows == 3 && alpha.len() > 9 {
                        blocks.push(Block { family: if gi == 0 { "rt-1col" } else { "rt-widened" }, foreign: false, opts: o.clone(), cols: vec![col.clone()], rows, alpha: vec![alpha.clone()], mode: Mode::Rotation(alpha.len() as u64) });
                        continue;
                    }
                    blocks.push(Block { family: if gi == 0 { "rt-1col" } else { "rt-widened" }, foreign: false, opts: o.clone(), cols: vec![col.clone()], rows, alpha: vec![alpha.clone()], mode: Mode::Product });
                }
                if gi == 0 {
                    // apache-avro as the writer (strict_mode / utf8_view / batch size still apply to the reader)
                    if o.layout == 0 {
                        for rows in 0..=2usize {
                            blocks.push(Block { family: "foreign-1col", foreign: true, opts: o.clone(), cols: vec![col.clone()], rows, alpha: vec![alpha.clone()], mode: if rows == 2 && alpha.len() > 9 { Mode::Rotation(alpha.len() as u64) } else { Mode::Product } });
                        }
                    }
                }
            }
        }
        // three-column schemas
        let core: Vec<ACol> = vec![same[1].clone(), same[5].clone(), same[18].clone(), same[25].clone(), same[27].clone(), same[28].clone(), same[23].clone()];
        let calpha: Vec<Arc<Vec<V>>> = core.iter().map(|c| Arc::new(col_alpha(c, &o))).collect();
        for (i, c1) in core.iter().enumerate() {
            for (j, c2) in core.iter().enumerate() {
                for (k, c3) in core.iter().enumerate() {
                    let alpha = vec![calpha[i].clone(), calpha[j].clone(), calpha[k].clone()];
                    let n = alpha.iter().map(|a| a.len()).max().unwrap() as u64;
                    for foreign in [false, true] {
                        if foreign && o.layout != 0 {
                            continue;
                        }
                        blocks.push(Block { family: if foreign { "foreign-3col" } else { "rt-3col" }, foreign, opts: o.clone(), cols: vec![c1.clone(), c2.clone(), c3.clone()], rows: 3, alpha: alpha.clone(), mode: Mode::Rotation(ctx.pick(n.min(3), n)) });
                    }
                }
            }
        }
    }
    // ---- codec sweep: every codec x union order x every type, rotations of the alphabet
    for codec in 0..6u8 {
        for null_second in [false, true] {
            for batch in [1024usize, 2] {
                let o = AOpts { framing: 0, codec, null_second, batch, utf8_view: false, strict: false, layout: 0, nullable: true };
                for col in same.iter().chain(widened.iter()) {
                    let alpha = Arc::new(col_alpha(col, &o));
                    let n = alpha.len() as u64;
                    let is_same = same.contains(col);
                    blocks.push(Block { family: "rt-codec", foreign: false, opts: o.clone(), cols: vec![col.clone()], rows: 3, alpha: vec![alpha.clone()], mode: Mode::Rotation(ctx.pick(n.min(4), n)) });
                    if is_same {
                        blocks.push(Block { family: "foreign-codec", foreign: true, opts: o.clone(), cols: vec![col.clone()], rows: 3, alpha: vec![alpha.clone()], mode: Mode::Rotation(ctx.pick(n.min(4), n)) });
                    }
                }
                // one wide, longer batch per codec so that blocks hold more than a few bytes
                let wide: Vec<ACol> = vec![same[1].clone(), same[5].clone(), same[4].clone(), same[25].clone(), same[27].clone()];
                let alpha: Vec<Arc<Vec<V>>> = wide.iter().map(|c| Arc::new(col_alpha(c, &o))).collect();
                for foreign in [false, true] {
                    blocks.push(Block { family: if foreign { "foreign-codec" } else { "rt-codec" }, foreign, opts: o.clone(), cols: wide.clone(), rows: 40, alpha: alpha.clone(), mode: Mode::Rotation(3) });
                }
            }
        }
    }
    blocks
}

// ---------------------------------------------------------------------------------------------

fn type_class(dt: &DataType) -> String {
    match dt {
        DataType::Timestamp(u, z) => format!("Timestamp({u:?},{})", if z.is_some() { "tz" } else { "local" }),
        DataType::Decimal128(..) => "Decimal128".into(),
        DataType::Decimal256(..) => "Decimal256".into(),
        DataType::List(f) => format!("List<{}>", type_class(f.data_type())),
        DataType::LargeList(f) => format!("LargeList<{}>", type_class(f.data_type())),
        DataType::Struct(fs) => format!("Struct<{}>", fs.iter().map(|f| type_class(f.data_type())).collect::<Vec<_>>().join(",")),
        DataType::Map(e, _) => format!("Map<{}>", type_class(e.data_type())),
        DataType::Dictionary(..) => "Enum".into(),
        DataType::FixedSizeBinary(_) => "FixedSizeBinary".into(),
        o => format!("{o}"),
    }
}

fn run_any(c: &Case, foreign: bool) -> Result<String, Fail> {
    if foreign { run_case_foreign(c) } else { run_case(c) }
}

pub fn shrink(c: &Case, foreign: bool) -> (Case, Fail) {
    let fails = |c: &Case| -> Option<Fail> {
        if !valid_point(&c.opts) || c.cols.iter().any(|col| !col_allowed(col, &c.opts)) {
            return None;
        }
        for (i, col) in c.cells.iter().enumerate() {
            if col.iter().any(|v| v.is_null()) && !col_nullable(&c.cols[i], &c.opts) {
                return None;
            }
        }
        match run_any(c, foreign) {
            Err(f) if f.stage != "harness" => Some(f),
            _ => None,
        }
    };
    let mut cur = c.clone();
    let Some(mut last) = fails(&cur) else {
        return (cur, Fail { stage: "nondeterministic", col: None, msg: "violation did not reproduce on re-execution".into() });
    };
    let mut changed = true;
    while changed {
        changed = false;
        let p = opts_to_point(&cur.opts);
        for d in 0..p.len() {
            if p[d] != 0 {
                let mut q = opts_to_point(&cur.opts);
                q[d] = 0;
                let mut t = cur.clone();
                t.opts = opts_from_point(&q);
                if let Some(f) = fails(&t) {
                    cur = t;
                    last = f;
                    changed = true;
                }
            }
        }
        let mut ci = 0;
        while cur.cols.len() > 1 && ci < cur.cols.len() {
            let mut t = cur.clone();
            t.cols.remove(ci);
            t.cells.remove(ci);
            if let Some(f) = fails(&t) {
                cur = t;
                last = f;
                changed = true;
            } else {
                ci += 1;
            }
        }
        let mut ri = 0;
        while ri < cur.cells[0].len() {
            let mut t = cur.clone();
            for col in t.cells.iter_mut() {
                col.remove(ri);
            }
            if let Some(f) = fails(&t) {
                cur = t;
                last = f;
                changed = true;
            } else {
                ri += 1;
            }
        }
    }
    (cur, last)
}

/// Triaged root causes (one semantic fingerprint each), decided on the case itself.
pub fn known_root_cause(c: &Case, foreign: bool) -> Option<&'static str> {
    let nrows = c.cells.first().map(|x| x.len()).unwrap_or(0);
    if !foreign && c.cols.iter().any(|col| col.dt == DataType::Null) {
        // Field(Null, nullable) -> ["null","null"]: the Avro specification forbids duplicate union branches
        return Some("c17:avro:writer:null-typed-field-written-as-union-null-null");
    }
    if !foreign && c.opts.framing == 0 && c.opts.null_second && c.cols.iter().any(|col| col_nullable(col, &c.opts)) {
        // the OCF header advertises a schema regenerated from the Arrow fields although the encoder
        // follows the `avro.schema` metadata: header and body disagree
        return Some("c17:avro:writer:ocf-header-ignores-avro.schema-metadata-used-by-encoder");
    }
    if c.opts.utf8_view && c.cols.iter().zip(&c.cells).any(|(col, cells)| col.kind == Kind::Plain && cells.iter().any(|v| has_null_string(&col.dt, v))) {
        // the StringView flush path rebuilds the array from `""` placeholders and forgets the validity
        return Some("c17:avro:reader:utf8_view-replaces-null-strings-by-empty-strings");
    }
    if foreign && c.opts.framing == 0 && nrows > 0 && c.cols.iter().all(|col| col.dt == DataType::Null) {
        return Some("c17:avro:reader:ocf-block-of-zero-byte-records-yields-no-rows");
    }
    None
}

pub fn fingerprint(min: &Case, f: &Fail, foreign: bool) -> String {
    if let Some(k) = known_root_cause(min, foreign) {
        return k.into();
    }
    let p = opts_to_point(&min.opts);
    let devs: Vec<String> = p.iter().enumerate().filter(|(_, v)| **v != 0).map(|(d, _)| DIM_NAMES[d].to_string()).collect();
    let col = f.col.unwrap_or(0).min(min.cols.len().saturating_sub(1));
    let tclass = min.cols.get(col).map(|c| format!("{}{}", type_class(&c.dt), if c.kind == Kind::Plain { String::new() } else { format!("/{:?}", c.kind).split('(').next().unwrap().to_string() })).unwrap_or_default();
    let has_null = min.cells.get(col).map(|c| c.iter().any(|v| v.is_null())).unwrap_or(false);
    format!("c17:avro:{}{}:{}:opts[{}]:{}", if foreign { "foreign:" } else { "" }, f.stage, tclass, devs.join(","), if has_null { "null-cell" } else { "value-cell" })
}

pub fn case_json(sub: &str, idx: u64, tier: &str, c: &Case) -> Value {
    json!({
        "sub": sub, "idx": idx, "tier": tier,
        "options": format!("{:?}", c.opts),
        "types": c.cols.iter().map(|t| format!("{}{}", t.dt, if t.kind == Kind::Plain { String::new() } else { format!(" [{:?}]", t.kind) })).collect::<Vec<_>>(),
        "columns": c.cells.iter().map(|c| show_col(c)).collect::<Vec<_>>(),
    })
}

pub fn tier_name(ctx: &Ctx) -> &'static str {
    if ctx.quick() { "quick" } else { "thorough" }
}

pub fn replay(ctx: &Ctx, idx: u64) -> Result<String, String> {
    let blocks = Blocks::new(build_blocks(ctx), |b| b.size());
    if idx >= blocks.total {
        return Err(format!("index {idx} outside the space ({})", blocks.total));
    }
    let (bi, local) = blocks.locate(idx);
    let b = &blocks.blocks[bi];
    let c = b.case(local);
    println!("case ({}): {}", if b.foreign { "apache-avro writes, arrow-avro reads" } else { "arrow-avro writes; apache-avro and arrow-avro read" }, case_json("avro", idx, tier_name(ctx), &c));
    match run_any(&c, b.foreign) {
        Ok(o) => Ok(o),
        Err(f) => {
            let (min, mf) = shrink(&c, b.foreign);
            Err(format!("{}: {}\n  minimal: {} -> {}: {}", f.stage, f.msg, case_json("avro", idx, tier_name(ctx), &min), fingerprint(&min, &mf, b.foreign), mf.msg))
        }
    }
}

pub fn run(ctx: &Ctx, order_base: u64) -> Stats {
    let mut st = Stats::new();
    let tier = tier_name(ctx);
    let blocks = Blocks::new(build_blocks(ctx), |b| b.size());
    let n = blocks.total;
    let nblocks = blocks.blocks.len();
    let res = par_for(ctx, "avro", n, 64, |idx, st| {
        let (bi, local) = blocks.locate(idx);
        let b = &blocks.blocks[bi];
        let c = b.case(local);
        let r = run_any(&c, b.foreign);
        let sub = format!("avro:{}", b.family);
        st.add(&sub, 1, (b.rows > 0) as u64);
        match r {
            Ok(class) => st.outcome(&class),
            Err(f) if f.stage == "harness" => st.violate(order_base + idx, format!("c17:avro:HARNESS:{}", f.msg.chars().take(40).collect::<String>()), f.msg.clone(), || case_json("avro", idx, tier, &c)),
            Err(f) if known_root_cause(&c, b.foreign).is_some() => {
                st.outcome(&format!("avro:violation:{}", f.stage));
                st.violate(order_base + idx, known_root_cause(&c, b.foreign).unwrap(), format!("{} | types={:?} columns={:?} options={:?}", f.msg, c.cols.iter().map(|t| t.dt.to_string()).collect::<Vec<_>>(), c.cells.iter().map(|c| show_col(c)).collect::<Vec<_>>(), c.opts), || case_json("avro", idx, tier, &c));
            }
            Err(f) => {
                let (min, mf) = shrink(&c, b.foreign);
                let fp = if mf.stage == "nondeterministic" { "c17:avro:NONDETERMINISTIC".to_string() } else { fingerprint(&min, &mf, b.foreign) };
                st.outcome(&format!("avro:violation:{}", f.stage));
                st.violate(order_base + idx, fp, format!("{} | minimal case: types={:?} columns={:?} options={:?} -> {}", f.msg, min.cols.iter().map(|t| t.dt.to_string()).collect::<Vec<_>>(), min.cells.iter().map(|c| show_col(c)).collect::<Vec<_>>(), min.opts, mf.msg), || {
                    let mut j = case_json("avro", idx, tier, &c);
                    j["minimal"] = case_json("avro", idx, tier, &min);
                    j
                });
            }
        }
        if local == 0 && (bi == 0 || bi == nblocks / 2 || bi == nblocks - 1) {
            st.sample(&sub, || case_json("avro", idx, tier, &c));
        }
    });
    st.merge(res);
    st.extra.insert("avro".into(), json!({"cases": n, "blocks": nblocks, "codecs": CODEC_NAMES}));
    st.count("order_span_avro", n);
    st
}
