//! C17 - CSV, JSON and Avro writers and readers round-trip (three sub-engines with own counters)
use crate::{avrox, csvx, jsonx};
use vcore::{Ctx, Level, Stats};

fn want(ctx: &Ctx, sub: &str) -> bool {
    // `--only csv|json|avro` restricts a development run to one sub-engine (evidence then says so)
    match ctx.extra_args.iter().position(|a| a == "--only") {
        Some(i) => ctx.extra_args.get(i + 1).map(|s| s.split(',').any(|x| x == sub)).unwrap_or(true),
        None => true,
    }
}

pub fn run(ctx: &Ctx) -> ! {
    if let Some(case) = vcore::load_replay(ctx) {
        let sub = case["sub"].as_str().unwrap_or("");
        let idx = case["idx"].as_u64().unwrap_or(0);
        let tier = case["tier"].as_str().unwrap_or("quick");
        if (tier == "quick") != ctx.quick() {
            println!("note: the case was recorded in tier {tier}; re-run with --tier {tier} (indices are per tier)");
            std::process::exit(2);
        }
        let r = match sub {
            "csv-rt" => csvx::replay_rt(ctx, idx),
            "csv-grammar" => csvx::replay_grammar(ctx, idx),
            "json-rt" => jsonx::replay_rt(ctx, idx),
            "json-grammar" => jsonx::replay_grammar(ctx, idx),
            "avro" => avrox::replay(ctx, idx),
            _ => Err(format!("unknown sub-engine {sub:?}")),
        };
        match &r {
            Ok(o) => println!("replay outcome: property holds on this case ({o})"),
            Err(e) => println!("replay outcome: VIOLATION {e}"),
        }
        std::process::exit(if r.is_ok() { 0 } else { 1 });
    }
    let mut st = Stats::new();
    let mut base = 0u64;
    if want(ctx, "csv") {
        let s = csvx::run(ctx, base);
        base += s.counters.get("order_span_csv").copied().unwrap_or(0);
        st.merge(s);
    }
    if want(ctx, "json") {
        let s = jsonx::run(ctx, base);
        base += s.counters.get("order_span_json").copied().unwrap_or(0);
        st.merge(s);
    }
    if want(ctx, "avro") {
        let s = avrox::run(ctx, base);
        base += s.counters.get("order_span_avro").copied().unwrap_or(0);
        st.merge(s);
    }
    let _ = base;
    if ctx.extra_args.iter().any(|a| a == "--only") {
        st.cap("development run restricted with --only");
    }
    vcore::finish(
        ctx,
        Level {
            category: "exploration",
            rule: "every enumerated index is a distinct (option point, schema, cell assignment) triple or a distinct grammar text; a case is non-trivial when it has at least one row / is inside the claimed class".into(),
            assumptions: vec![],
            exhaustive_space: "see per-sub-engine keys".into(),
        },
        st,
    )
}
