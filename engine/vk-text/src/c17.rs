//! C17 - CSV, JSON and Avro writers and readers round-trip (three sub-engines with own counters)
use crate::{avrox, csvx, jsonx};
use vcore::{Ctx, Level, Stats};

fn want(ctx: &Ctx, sub: &str) -> bool {
    // `--only csv|json|avro` restricts a development run to one sub-engine (evidence then says so)
    match ctx.extra_args.iter().position(|a| a == "--only") {
        Some(i) => ctx.extra_args.get(i + 1).map(|s| s.split(',').any(|x| x == sub)).unwrap_or(true),
        None => true,
    }
}

pub fn run(ctx: &Ctx) -> ! {
    if let Some(case) = vcore::load_replay(ctx) {
        let sub = case["sub"].as_str().unwrap_or("");
        let idx = case["idx"].as_u64().unwrap_or(0);
        let tier = case["tier"].as_str().unwrap_or("quick");
        if (tier == "quick") != ctx.quick() {
            println!("note: the case was recorded in tier {tier}; re-run with --tier {tier} (indices are per tier)");
            std::process::exit(2);
        }
        let r = match sub {
            "csv-rt" => csvx::replay_rt(ctx, idx),
            "csv-grammar" => csvx::replay_grammar(ctx, idx),
            "json-rt" => jsonx::replay_rt(ctx, idx),
            "json-grammar" => jsonx::replay_grammar(ctx, idx),
            "avro" => avrox::replay(ctx, idx),
            _ => Err(format!("unknown sub-engine {sub:?}")),
        };
        match &r {
            Ok(o) => println!("replay outcome: property holds on this case ({o})"),
            Err(e) => println!("replay outcome: VIOLATION {e}"),
        }
        std::process::exit(if r.is_ok() { 0 } else { 1 });
    }
    if ctx.has_flag("--count") {
        // size of the enumerated spaces without running them (development aid)
        let fam = |v: Vec<(&'static str, u64)>| {
            let mut m = std::collections::BTreeMap::new();
            for (k, n) in v {
                *m.entry(k).or_insert(0u64) += n;
            }
            m
        };
        println!("csv-rt      {:?}", fam(csvx::build_blocks(ctx).iter().map(|b| (b.family, b.size())).collect()));
        println!("csv-grammar {}", csvx::grammar_blocks(ctx).iter().map(|b| b.size()).sum::<u64>());
        println!("json-rt     {:?}", fam(jsonx::build_blocks(ctx).iter().map(|b| (b.family, b.size())).collect()));
        let g = jsonx::gspace(ctx);
        println!("json-grammar numbers={} strings={} whitespace={} structures={}", g.n_num, g.n_str, g.n_ws, g.n_struct);
        println!("avro        {:?}", fam(avrox::build_blocks(ctx).iter().map(|b| (b.family, b.size())).collect()));
        std::process::exit(0);
    }
    let mut st = Stats::new();
    let mut base = 0u64;
    if want(ctx, "csv") {
        let s = csvx::run(ctx, base);
        base += s.counters.get("order_span_csv").copied().unwrap_or(0);
        st.merge(s);
    }
    if want(ctx, "json") {
        let s = jsonx::run(ctx, base);
        base += s.counters.get("order_span_json").copied().unwrap_or(0);
        st.merge(s);
    }
    if want(ctx, "avro") {
        let s = avrox::run(ctx, base);
        base += s.counters.get("order_span_avro").copied().unwrap_or(0);
        st.merge(s);
    }
    let _ = base;
    if ctx.extra_args.iter().any(|a| a == "--only") {
        st.cap("development run restricted with --only");
    }
    vcore::finish(
        ctx,
        Level {
            category: "exploration",
            rule: "cases are enumerated, never sampled. Round-trip sub-engines: every index is a distinct (option point, schema, cell assignment) triple: option points = all points of the option product within <= k deviations from the default that satisfy the stated unambiguity rules (constructed, not filtered after running); cells = complete product of per-column alphabets for the small shapes, alphabet rotations for 3-column schemas. Grammar sub-engines: every index is a distinct character/token sequence (numbers, string token sequences, whitespace placements, structural token sequences, RFC 4180 field assignments). A round-trip case is non-trivial when it has >= 1 row; a grammar case is non-trivial when it is inside the claimed class (accepted by the independent parser and not in an excluded class).".into(),
            assumptions: vec![
                "CSV: null sentinel (after documented trimming) never equals a written value; first-column values do not start with the reader's comment byte unless quoted; QuoteStyle::Never only for typed columns without structural bytes; letter delimiters only for string columns; structural bytes pairwise distinct; empty lines (single empty unquoted field) are not claimed (csv-core skips them)".into(),
                "JSON: finite floats only; null map values only with explicit_nulls; map keys distinct; reject direction of the grammar check is observed, not enforced (arrow-json documents no strictness; lenient classes are listed in the outcome histogram); lone surrogate escapes, duplicate keys, numbers beyond serde_json's range and heterogeneous arrays (no fitting Arrow schema) are excluded classes".into(),
                "Avro: types limited to those arrow-avro maps back to the same or a documented wider Arrow type; strict_mode with [T,null] unions and uuid under utf8_view are documented deviations and not constructed; map comparison against apache-avro is order-insensitive (HashMap)".into(),
                "independent oracles: own RFC 4180 splitter, own strict RFC 8259 parser cross-checked with serde_json (float_roundtrip) on every document, str::parse for floats, own calendar/decimal text decoders, apache-avro 0.22 readers/writers, own Parsing-Canonical-Form + CRC-64-AVRO for single-object headers".into(),
            ],
            exhaustive_space: "C17 quantifier restricted to: schemas of <= 3 fields, columns of <= 3 rows (one 40-row batch per Avro codec), alphabets listed in STATUS.md, option points within <= 2 (quick) / 3-4 (thorough) deviations; JSON documents up to 5/6 number characters, 3 string tokens, 5/6 structural tokens".into(),
        },
        st,
    )
}
