//! C17 / CSV sub-engine.
//!
//! (i)   read(write(batch)) == batch for every constructed (schema, cells, option point)
//! (ii)  the written bytes are split by an independent RFC 4180 state machine (`split`) and every field
//!       text is decoded independently (own integer/decimal/date/time parsers, Rust float parsing)
//! (iii) RFC 4180 texts generated from a small grammar are read by arrow-csv and must give exactly the
//!       fields the grammar (and `split`) give
use crate::util::*;
use crate::val::*;
use arrow_array::{Array, ArrayRef, RecordBatch};
use arrow_buffer::i256;
use arrow_csv::reader::Format;
use arrow_csv::writer::Terminator;
use arrow_csv::{QuoteStyle, ReaderBuilder, WriterBuilder};
use arrow_schema::{DataType, Field, Schema, TimeUnit};
use regex::Regex;
use std::sync::Arc;
use vcore::serde_json::{Value, json};
use vcore::{Ctx, Stats, catch, par_for};

// ---------------------------------------------------------------------------------------------
// independent RFC 4180 splitter (with the two classic extensions the writer can be configured to
// use: a different delimiter/quote/terminator byte and backslash-style escapes inside quoted fields)

#[derive(Clone, Copy, Debug, PartialEq)]
pub enum Term {
    Lf,
    CrLf,
    Cr,
    Any(u8),
}

#[derive(Clone, Copy, Debug)]
pub struct Dialect {
    pub delim: u8,
    pub quote: u8,
    pub esc: Option<u8>,
    /// None: CR, LF and CRLF all end a record (what RFC 4180 readers conventionally accept)
    pub term: Option<u8>,
}

/// Splits `text` into records of fields. Empty lines are skipped (csv-core convention; the writer
/// never produces one). Strict: a quote inside an unquoted field or garbage after a closing quote is
/// an error.
pub fn split(text: &[u8], d: &Dialect) -> Result<Vec<Vec<Vec<u8>>>, String> {
    #[derive(PartialEq)]
    enum S {
        Start,
        Unq,
        Quo,
        QuoEsc,
        QuoQuote,
    }
    let is_term = |b: u8| match d.term {
        None => b == b'\r' || b == b'\n',
        Some(t) => b == t,
    };
    let mut recs: Vec<Vec<Vec<u8>>> = vec![];
    let mut rec: Vec<Vec<u8>> = vec![];
    let mut cur: Vec<u8> = vec![];
    let mut st = S::Start;
    let mut i = 0;
    while i < text.len() {
        let b = text[i];
        match st {
            S::Start => {
                if b == d.quote {
                    st = S::Quo;
                } else if b == d.delim {
                    rec.push(std::mem::take(&mut cur));
                } else if is_term(b) {
                    if !rec.is_empty() {
                        rec.push(std::mem::take(&mut cur));
                        recs.push(std::mem::take(&mut rec));
                    }
                    // else: empty line, skipped
                } else {
                    cur.push(b);
                    st = S::Unq;
                }
            }
            S::Unq => {
                if b == d.delim {
                    rec.push(std::mem::take(&mut cur));
                    st = S::Start;
                } else if is_term(b) {
                    rec.push(std::mem::take(&mut cur));
                    recs.push(std::mem::take(&mut rec));
                    st = S::Start;
                } else if b == d.quote {
                    return Err(format!("quote inside unquoted field at byte {i}"));
                } else {
                    cur.push(b);
                }
            }
            S::Quo => {
                if Some(b) == d.esc {
                    st = S::QuoEsc;
                } else if b == d.quote {
                    st = S::QuoQuote;
                } else {
                    cur.push(b);
                }
            }
            S::QuoEsc => {
                cur.push(b);
                st = S::Quo;
            }
            S::QuoQuote => {
                if b == d.quote {
                    cur.push(b);
                    st = S::Quo;
                } else if b == d.delim {
                    rec.push(std::mem::take(&mut cur));
                    st = S::Start;
                } else if is_term(b) {
                    rec.push(std::mem::take(&mut cur));
                    recs.push(std::mem::take(&mut rec));
                    st = S::Start;
                } else {
                    return Err(format!("byte after closing quote at {i}"));
                }
            }
        }
        i += 1;
    }
    match st {
        S::Start => {
            if !rec.is_empty() {
                rec.push(cur);
                recs.push(rec);
            }
        }
        S::Unq | S::QuoQuote => {
            rec.push(cur);
            recs.push(rec);
        }
        S::Quo | S::QuoEsc => return Err("unterminated quoted field".into()),
    }
    Ok(recs)
}

// ---------------------------------------------------------------------------------------------
// options

#[derive(Clone, Debug)]
pub struct Opts {
    pub delim: u8,
    pub quote: u8,
    pub esc: Option<u8>,
    pub term: Term,
    /// 0 Necessary, 1 Always, 2 NonNumeric, 3 Never
    pub qs: u8,
    pub header: bool,
    pub hval: bool,
    /// 0 plain c0,c1..; 1 names with metacharacters
    pub names: u8,
    pub null: usize,
    /// 0 default formats, 1 custom date/time formats
    pub fmt: u8,
    /// bit0 leading, bit1 trailing
    pub trim: u8,
    pub comment: Option<u8>,
    pub truncated: bool,
    pub batch: usize,
    /// 0 Utf8, 1 Utf8View, 2 Dictionary<Int32,Utf8>
    pub strty: u8,
    /// 0 compact, 1 sliced (offset 1), 2 sliced (offset 9)
    pub layout: u8,
    pub nullable: bool,
}

pub const DIM_NAMES: [&str; 17] = ["delimiter", "quote", "escape", "terminator", "quote_style", "header", "header_validation", "names", "null", "formats", "trim", "comment", "truncated_rows", "batch_size", "string_type", "layout", "nullable"];
const DELIMS: [u8; 6] = [b',', b'\t', b';', b'|', b' ', b'a'];
const QUOTES: [u8; 2] = [b'"', b'\''];
const ESCS: [Option<u8>; 3] = [None, Some(b'\\'), Some(b'#')];
const TERMS: [Term; 4] = [Term::Lf, Term::CrLf, Term::Cr, Term::Any(b';')];
const BATCHES: [usize; 3] = [1024, 1, 2];
/// (sentinel written by the writer, reader null regex; None = reader default `^$`)
pub const NULLS: [(&str, Option<&str>); 5] = [("", None), ("NULL", Some("^NULL$")), ("\\N", Some(r"^\\N$")), ("n/a", Some("^n/a$")), ("NULL", Some("(?i)^null$"))];
const DIM_SIZES: [usize; 17] = [6, 2, 3, 4, 4, 2, 2, 2, 5, 2, 4, 2, 2, 3, 3, 3, 2];

pub fn opts_from_point(p: &[usize]) -> Opts {
    Opts {
        delim: DELIMS[p[0]],
        quote: QUOTES[p[1]],
        esc: ESCS[p[2]],
        term: TERMS[p[3]],
        qs: p[4] as u8,
        header: p[5] == 0,
        hval: p[6] == 1,
        names: p[7] as u8,
        null: p[8],
        fmt: p[9] as u8,
        trim: p[10] as u8,
        comment: if p[11] == 1 { Some(b'#') } else { None },
        truncated: p[12] == 1,
        batch: BATCHES[p[13]],
        strty: p[14] as u8,
        layout: p[15] as u8,
        nullable: p[16] == 0,
    }
}

/// Which option points are constructed (the text must be unambiguous under them):
/// * the structural bytes (delimiter, quote, escape, terminator, comment) are pairwise distinct
/// * header validation / metacharacter names only together with a header (otherwise no-ops)
/// * QuoteStyle::Never only for the typed family, where no cell text can contain a structural byte
pub fn valid_point(o: &Opts, typed: bool) -> bool {
    let mut specials: Vec<u8> = vec![o.delim, o.quote];
    if let Some(e) = o.esc {
        specials.push(e);
    }
    if let Term::Any(b) = o.term {
        specials.push(b);
    }
    if let Some(c) = o.comment {
        specials.push(c);
    }
    specials.push(b'\r');
    specials.push(b'\n');
    let n = specials.len();
    specials.sort();
    specials.dedup();
    if specials.len() != n {
        return false;
    }
    if !o.header && (o.hval || o.names != 0) {
        return false;
    }
    if o.qs == 3 {
        if !typed || !matches!(o.delim, b',' | b'\t' | b';' | b'|') || o.null > 1 || o.names != 0 {
            return false;
        }
    }
    // numeric / boolean renderings contain letters (NaN, inf, true, e): a letter as delimiter makes
    // the text of a *number* ambiguous under QuoteStyle::NonNumeric, which by its documentation only
    // looks at whether a field parses as a number. Not constructed for typed columns.
    if typed && o.delim.is_ascii_alphabetic() {
        return false;
    }
    true
}

pub fn field_names(o: &Opts, n: usize) -> Vec<String> {
    let meta = ["x,y", "q\"r", "l\nm"];
    (0..n).map(|i| if o.names == 0 { format!("c{i}") } else { meta[i % 3].to_string() }).collect()
}

fn term_to_writer(t: Term) -> Terminator {
    match t {
        Term::Lf => Terminator::Any(b'\n'),
        Term::CrLf => Terminator::CRLF,
        Term::Cr => Terminator::Any(b'\r'),
        Term::Any(b) => Terminator::Any(b),
    }
}

const CUSTOM_DATE: &str = "%Y-%m-%d";
const CUSTOM_DATETIME: &str = "%Y-%m-%d %H:%M:%S%.3f";
const CUSTOM_TS: &str = "%Y-%m-%d %H:%M:%S%.9f";
const CUSTOM_TS_TZ: &str = "%Y-%m-%d %H:%M:%S%.9f %:z";
const CUSTOM_TIME: &str = "%H:%M:%S%.9f";

pub fn writer_builder(o: &Opts) -> WriterBuilder {
    let mut b = WriterBuilder::new()
        .with_delimiter(o.delim)
        .with_quote(o.quote)
        .with_line_terminator(term_to_writer(o.term))
        .with_quote_style(match o.qs {
            0 => QuoteStyle::Necessary,
            1 => QuoteStyle::Always,
            2 => QuoteStyle::NonNumeric,
            _ => QuoteStyle::Never,
        })
        .with_header(o.header)
        .with_ignore_leading_whitespace(o.trim & 1 != 0)
        .with_ignore_trailing_whitespace(o.trim & 2 != 0);
    if let Some(e) = o.esc {
        b = b.with_double_quote(false).with_escape(e);
    }
    if o.null != 0 {
        b = b.with_null(NULLS[o.null].0.to_string());
    }
    if o.fmt == 1 {
        b = b
            .with_date_format(CUSTOM_DATE.into())
            .with_datetime_format(CUSTOM_DATETIME.into())
            .with_timestamp_format(CUSTOM_TS.into())
            .with_timestamp_tz_format(CUSTOM_TS_TZ.into())
            .with_time_format(CUSTOM_TIME.into());
    }
    b
}

pub fn reader_format(o: &Opts, null_re: &Option<Regex>) -> Format {
    let mut f = Format::default().with_header(o.header).with_header_validation(o.hval).with_delimiter(o.delim).with_quote(o.quote).with_truncated_rows(o.truncated);
    if let Some(e) = o.esc {
        f = f.with_escape(e);
    }
    if let Term::Any(b) = o.term {
        f = f.with_terminator(b);
    }
    if let Some(c) = o.comment {
        f = f.with_comment(c);
    }
    if let Some(r) = null_re {
        f = f.with_null_regex(r.clone());
    }
    f
}

pub fn dialect(o: &Opts) -> Dialect {
    Dialect {
        delim: o.delim,
        quote: o.quote,
        esc: o.esc,
        term: match o.term {
            Term::Any(b) => Some(b),
            _ => None,
        },
    }
}

// ---------------------------------------------------------------------------------------------
// alphabets

pub const CHARS: [char; 15] = ['a', ',', '"', '\n', '\r', '\\', '\t', ' ', '#', '\u{1}', 'é', '𝄞', 'N', '\'', ';'];

/// "", every single character, the sentinels and case variants, leading/trailing-space forms
pub fn strings_a1() -> Vec<String> {
    let mut v: Vec<String> = vec!["".into()];
    v.extend(CHARS.iter().map(|c| c.to_string()));
    v.extend(["NULL", "\\N", "n/a", "null", " a", "a ", " a ", "\r\n", "1", "-1.5"].iter().map(|s| s.to_string()));
    v
}
pub fn strings_a2() -> Vec<String> {
    let mut v = vec![];
    for a in CHARS {
        for b in CHARS {
            v.push(format!("{a}{b}"));
        }
    }
    v
}
pub fn strings_a0() -> Vec<String> {
    ["", "a", ",", "\"", "\n", "\r", " ", "\\", "#"].iter().map(|s| s.to_string()).collect()
}
pub fn strings_full() -> Vec<String> {
    let mut v = strings_a1();
    for s in strings_a2() {
        if !v.contains(&s) {
            v.push(s);
        }
    }
    v
}

/// The writer documents trimming for Utf8, LargeUtf8 and Utf8View columns only: dictionary-encoded
/// strings are written untrimmed.
pub fn eff_trim(o: &Opts) -> u8 {
    if o.strty == 2 { 0 } else { o.trim }
}

pub fn trimmed(s: &str, trim: u8) -> &str {
    let mut t = s;
    if trim & 1 != 0 {
        t = t.trim_start();
    }
    if trim & 2 != 0 {
        t = t.trim_end();
    }
    t
}

fn pow10(n: u32) -> i256 {
    let mut r = i256::ONE;
    for _ in 0..n {
        r = r.checked_mul(i256::from_i128(10)).unwrap();
    }
    r
}
fn d(i: i128) -> V {
    V::Dec(i256::from_i128(i))
}

pub fn tz(s: &str) -> Option<Arc<str>> {
    Some(Arc::from(s))
}

/// the CSV type grid: what both arrow-csv writer and reader support
pub fn typed_grid() -> Vec<DataType> {
    use DataType::*;
    vec![
        Boolean,
        Int8,
        Int16,
        Int32,
        Int64,
        UInt8,
        UInt16,
        UInt32,
        UInt64,
        Float16,
        Float32,
        Float64,
        Decimal32(5, 2),
        Decimal32(9, 0),
        Decimal64(18, 4),
        Decimal128(38, 0),
        Decimal128(38, 38),
        Decimal128(10, 2),
        Decimal128(10, -2),
        Decimal256(76, 0),
        Decimal256(76, 38),
        Date32,
        Date64,
        Time32(TimeUnit::Second),
        Time32(TimeUnit::Millisecond),
        Time64(TimeUnit::Microsecond),
        Time64(TimeUnit::Nanosecond),
        Timestamp(TimeUnit::Second, None),
        Timestamp(TimeUnit::Millisecond, None),
        Timestamp(TimeUnit::Microsecond, None),
        Timestamp(TimeUnit::Nanosecond, None),
        Timestamp(TimeUnit::Second, tz("+05:30")),
        Timestamp(TimeUnit::Millisecond, tz("-08:00")),
        Timestamp(TimeUnit::Microsecond, tz("+00:00")),
        Timestamp(TimeUnit::Nanosecond, tz("+05:30")),
        Null,
    ]
}

pub fn unit_nanos(u: &TimeUnit) -> i128 {
    match u {
        TimeUnit::Second => 1_000_000_000,
        TimeUnit::Millisecond => 1_000_000,
        TimeUnit::Microsecond => 1_000,
        TimeUnit::Nanosecond => 1,
    }
}

/// non-null value alphabet of a type (extremes, code-path boundaries, hard shortest-round-trip floats)
pub fn alphabet(dt: &DataType) -> Vec<V> {
    use DataType::*;
    let ints = |v: &[i128]| v.iter().map(|x| V::I(*x)).collect::<Vec<_>>();
    match dt {
        Boolean => vec![V::Bool(true), V::Bool(false)],
        Int8 => ints(&[0, -1, 1, i8::MIN as i128, i8::MAX as i128]),
        Int16 => ints(&[0, -1, i16::MIN as i128, i16::MAX as i128]),
        Int32 => ints(&[0, -1, 10, i32::MIN as i128, i32::MAX as i128]),
        Int64 => ints(&[0, -1, i64::MIN as i128, i64::MAX as i128, (1i128 << 53) + 1]),
        UInt8 => ints(&[0, 1, 255]),
        UInt16 => ints(&[0, 9, 65535]),
        UInt32 => ints(&[0, 10, u32::MAX as i128]),
        UInt64 => ints(&[0, 1, u64::MAX as i128, i64::MAX as i128 + 1]),
        Float16 => [0.0f32, -0.0, 1.0, -1.5, 5.9604645e-8, 6.1035156e-5, 65504.0, 0.1, 0.33325195, f32::INFINITY, f32::NEG_INFINITY, f32::NAN].iter().map(|x| V::F16(half::f16::from_f32(*x).to_bits())).collect(),
        Float32 => [0.0f32, -0.0, 1.0, -1.5, 1e-45, 1.1754942e-38, 1.17549435e-38, 3.4028235e38, 16777216.0, 16777217.0, 0.1, 1e23, 8.589973e9, 1e-7, f32::INFINITY, f32::NEG_INFINITY, f32::NAN].iter().map(|x| V::f32(*x)).collect(),
        Float64 => [
            0.0f64,
            -0.0,
            1.0,
            -1.5,
            5e-324,
            2.2250738585072014e-308,
            2.225073858507201e-308,
            1.7976931348623157e308,
            9007199254740991.0,
            9007199254740992.0,
            9007199254740993.0,
            1e23,
            1e22,
            8.41e21,
            0.1,
            0.30000000000000004,
            1e21,
            1e-7,
            123456789012345680.0,
            2.5e-5,
            f64::INFINITY,
            f64::NEG_INFINITY,
            f64::NAN,
        ]
        .iter()
        .map(|x| V::f64(*x))
        .collect(),
        Decimal32(p, _) | Decimal64(p, _) | Decimal128(p, _) | Decimal256(p, _) => {
            let max = pow10(*p as u32).checked_sub(i256::ONE).unwrap();
            vec![d(0), d(1), d(-1), d(5), d(100), d(-12345), V::Dec(max), V::Dec(max.checked_neg().unwrap()), V::Dec(pow10(*p as u32 - 1))]
        }
        Date32 => ints(&[0, -1, 1, 10957, 11016, -25567, -719162, 2932896, 18321]),
        Date64 => ints(&[0, -86_400_000, 946_684_800_000, 951_782_400_000, 1, -1, 86_399_999, -62_135_596_800_000, 253_402_300_799_999]),
        Time32(TimeUnit::Second) => ints(&[0, 1, 59, 3661, 86399]),
        Time32(TimeUnit::Millisecond) => ints(&[0, 1, 999, 3_661_001, 86_399_999, 43_200_000]),
        Time64(TimeUnit::Microsecond) => ints(&[0, 1, 999_999, 86_399_999_999, 1000, 43_200_000_000]),
        Time64(TimeUnit::Nanosecond) => ints(&[0, 1, 1000, 1_000_000, 999_999_999, 86_399_999_999_999, 100]),
        Timestamp(TimeUnit::Second, _) => ints(&[0, -1, 1, 946_684_799, 946_684_800, 951_782_400, -62_135_510_400, 253_402_214_399, -2_208_988_800]),
        Timestamp(TimeUnit::Millisecond, _) => ints(&[0, -1, 1, 999, 1000, 946_684_799_999, -62_135_510_400_000, 253_402_214_399_999, 1_582_934_400_100]),
        Timestamp(TimeUnit::Microsecond, _) => ints(&[0, -1, 1, 1000, 946_684_799_999_999, -62_135_510_400_000_000, 253_402_214_399_999_999, 10]),
        // documented nanosecond range: 1677-09-21T00:12:44.0 ..= 2262-04-11T23:47:16.854775804
        Timestamp(TimeUnit::Nanosecond, _) => ints(&[0, -1, 1, 100, 1_000_000, 946_684_799_999_999_999, -9_223_372_036_000_000_000, i64::MAX as i128 - 3, 1_000_000_000]),
        Null => vec![],
        Utf8 | Utf8View | LargeUtf8 => strings_a1().into_iter().map(V::S).collect(),
        o => panic!("harness: no alphabet for {o:?}"),
    }
}

// ---------------------------------------------------------------------------------------------
// a fully explicit case

#[derive(Clone, Debug)]
pub struct Case {
    pub opts: Opts,
    /// column types (string columns are given as Utf8; `opts.strty` picks the physical flavour)
    pub types: Vec<DataType>,
    /// column-major cells
    pub cols: Vec<Vec<V>>,
}

#[derive(Debug)]
pub struct Fail {
    pub stage: &'static str,
    pub col: Option<usize>,
    pub msg: String,
}

fn phys_type(dt: &DataType, o: &Opts) -> DataType {
    match dt {
        DataType::Utf8 => match o.strty {
            0 => DataType::Utf8,
            1 => DataType::Utf8View,
            _ => DataType::Dictionary(Box::new(DataType::Int32), Box::new(DataType::Utf8)),
        },
        other => other.clone(),
    }
}

fn norm(v: &V) -> V {
    match v {
        V::F64(b) if f64::from_bits(*b).is_nan() => V::F64(f64::NAN.to_bits()),
        V::F32(b) if f32::from_bits(*b).is_nan() => V::F32(f32::NAN.to_bits()),
        V::F16(b) if half::f16::from_bits(*b).is_nan() => V::F16(half::f16::NAN.to_bits()),
        o => o.clone(),
    }
}

/// independent decoding of one field text for type `dt`; returns the logical value
pub fn decode_text(dt: &DataType, text: &str) -> Option<V> {
    use DataType::*;
    Some(match dt {
        Boolean => match text {
            "true" => V::Bool(true),
            "false" => V::Bool(false),
            _ => return None,
        },
        Int8 | Int16 | Int32 | Int64 | UInt8 | UInt16 | UInt32 | UInt64 => {
            if text.starts_with('+') {
                return None;
            }
            V::I(text.parse::<i128>().ok()?)
        }
        Float64 => V::F64(text.parse::<f64>().ok()?.to_bits()),
        Float32 => V::F32(text.parse::<f32>().ok()?.to_bits()),
        Float16 => V::F16(half::f16::from_f32(text.parse::<f32>().ok()?).to_bits()),
        Decimal32(_, s) | Decimal64(_, s) | Decimal128(_, s) | Decimal256(_, s) => V::Dec(parse_decimal_text(text, *s)?),
        Date32 => {
            let (ns, z) = parse_iso(text)?;
            if z.is_some() || text.len() != 10 {
                return None;
            }
            V::I(ns / 86_400_000_000_000)
        }
        Date64 => {
            let (ns, z) = parse_iso(text)?;
            if z.is_some() || ns % 1_000_000 != 0 {
                return None;
            }
            V::I(ns / 1_000_000)
        }
        Time32(u) | Time64(u) => {
            let ns = parse_time(text)?;
            if ns % unit_nanos(u) != 0 {
                return None;
            }
            V::I(ns / unit_nanos(u))
        }
        Timestamp(u, zone) => {
            let (local, z) = parse_iso(text)?;
            let utc = match (zone, z) {
                (None, None) => local,
                (Some(zone), Some(off)) => {
                    // the text must carry the offset of the column's (fixed) zone
                    let (_, want) = parse_iso(&format!("1970-01-01T00:00:00{zone}"))?;
                    if Some(off) != want {
                        return None;
                    }
                    local - off as i128 * 1_000_000_000
                }
                _ => return None,
            };
            if utc.rem_euclid(unit_nanos(u)) != 0 {
                return None;
            }
            V::I(utc.div_euclid(unit_nanos(u)))
        }
        Utf8 | Utf8View | LargeUtf8 => V::s(text),
        Dictionary(_, v) => return decode_text(v, text),
        _ => return None,
    })
}

pub struct Prepared {
    pub null_re: Option<Regex>,
}

pub fn prepare(o: &Opts) -> Prepared {
    // compiling a regex costs far more than a round trip: compile each of the five once
    static CACHE: [std::sync::OnceLock<Option<Regex>>; 5] = [const { std::sync::OnceLock::new() }; 5];
    Prepared { null_re: CACHE[o.null].get_or_init(|| NULLS[o.null].1.map(|p| Regex::new(p).expect("regex"))).clone() }
}

/// Executes one case: write, independently decode the text, read back, compare.
/// Ok(outcome class) or the first failing stage.
pub fn run_case(c: &Case, prep: &Prepared) -> Result<String, Fail> {
    let o = &c.opts;
    let ncols = c.types.len();
    let nrows = c.cols.first().map(|x| x.len()).unwrap_or(0);
    let names = field_names(o, ncols);
    let fields: Vec<Field> = (0..ncols).map(|i| Field::new(&names[i], phys_type(&c.types[i], o), o.nullable || c.types[i] == DataType::Null)).collect();
    let schema = Arc::new(Schema::new(fields));
    let arrays: Vec<ArrayRef> = (0..ncols)
        .map(|i| {
            let dt = phys_type(&c.types[i], o);
            match o.layout {
                0 => build(&dt, &c.cols[i]),
                l => {
                    let pad = match &c.types[i] {
                        DataType::Utf8 => V::s("pad,\"\n"),
                        DataType::Null => V::Null,
                        t => alphabet(t)[0].clone(),
                    };
                    build_sliced(&dt, &c.cols[i], &pad, if l == 1 { 1 } else { 9 })
                }
            }
        })
        .collect();
    let batch = RecordBatch::try_new_with_options(schema.clone(), arrays, &arrow_array::RecordBatchOptions::new().with_row_count(Some(nrows))).map_err(|e| Fail { stage: "harness", col: None, msg: format!("batch: {e}") })?;

    // ---- write
    let mut bytes: Vec<u8> = vec![];
    let wr = catch(|| {
        let mut w = writer_builder(o).build(&mut bytes);
        w.write(&batch)
    });
    match wr {
        Err(p) => return Err(Fail { stage: "write-panic", col: None, msg: format!("{} ({}:{})", p.fingerprint(), p.file, p.line) }),
        Ok(Err(e)) => return Err(Fail { stage: "write-error", col: None, msg: e.to_string() }),
        Ok(Ok(())) => {}
    }

    // expected logical cells (after documented trimming of string values)
    let expect: Vec<Vec<V>> = (0..ncols)
        .map(|i| {
            c.cols[i]
                .iter()
                .map(|v| match v {
                    V::S(s) => V::s(trimmed(s, eff_trim(o))),
                    other => norm(other),
                })
                .collect()
        })
        .collect();

    // ---- (ii) independent split + decode of the written text
    let recs = split(&bytes, &dialect(o)).map_err(|e| Fail { stage: "text-unsplittable", col: None, msg: format!("{e}; text={:?}", String::from_utf8_lossy(&bytes)) })?;
    let want_recs = nrows + o.header as usize;
    if recs.len() != want_recs {
        return Err(Fail { stage: "text-record-count", col: None, msg: format!("independent splitter sees {} records, expected {want_recs}; text={:?}", recs.len(), String::from_utf8_lossy(&bytes)) });
    }
    for (ri, r) in recs.iter().enumerate() {
        if r.len() != ncols {
            return Err(Fail { stage: "text-field-count", col: None, msg: format!("record {ri} has {} fields, expected {ncols}; text={:?}", r.len(), String::from_utf8_lossy(&bytes)) });
        }
        for (ci, f) in r.iter().enumerate() {
            let Ok(text) = std::str::from_utf8(f) else {
                return Err(Fail { stage: "text-not-utf8", col: Some(ci), msg: format!("record {ri} field {ci}") });
            };
            if o.header && ri == 0 {
                if text != names[ci] {
                    return Err(Fail { stage: "text-header", col: Some(ci), msg: format!("header field {ci} decodes to {text:?}, expected {:?}", names[ci]) });
                }
                continue;
            }
            let want = &expect[ci][ri - o.header as usize];
            let got = if want.is_null() {
                if text == NULLS[o.null].0 { Some(V::Null) } else { None }
            } else {
                decode_text(&c.types[ci], text).map(|v| norm(&v))
            };
            if got.as_ref() != Some(want) {
                return Err(Fail { stage: "text-value", col: Some(ci), msg: format!("field text {text:?} (row {} col {ci}) independently decodes to {:?}, expected {}", ri - o.header as usize, got.map(|g| g.show()), want.show()) });
            }
        }
    }

    // ---- (i) read back with the same schema
    let rd = catch(|| -> Result<Vec<RecordBatch>, arrow_schema::ArrowError> {
        let r = ReaderBuilder::new(schema.clone()).with_format(reader_format(o, &prep.null_re)).with_batch_size(o.batch).build_buffered(std::io::Cursor::new(&bytes))?;
        r.collect()
    });
    let batches = match rd {
        Err(p) => return Err(Fail { stage: "read-panic", col: None, msg: format!("{} ({}:{}); text={:?}", p.fingerprint(), p.file, p.line, String::from_utf8_lossy(&bytes)) }),
        Ok(Err(e)) => return Err(Fail { stage: "read-error", col: None, msg: format!("{e}; text={:?}", String::from_utf8_lossy(&bytes)) }),
        Ok(Ok(b)) => b,
    };
    let mut got: Vec<Vec<V>> = vec![vec![]; ncols];
    let mut total = 0;
    for b in &batches {
        if b.schema() != schema {
            return Err(Fail { stage: "read-schema", col: None, msg: format!("schema {:?} != {:?}", b.schema(), schema) });
        }
        if b.num_rows() > o.batch || b.num_rows() == 0 {
            return Err(Fail { stage: "read-batch-size", col: None, msg: format!("batch of {} rows with batch_size {}", b.num_rows(), o.batch) });
        }
        total += b.num_rows();
        for (i, col) in b.columns().iter().enumerate() {
            if let Err(e) = col.to_data().validate_full() {
                return Err(Fail { stage: "wf", col: Some(i), msg: format!("validate_full: {e}") });
            }
            got[i].extend(extract(col.as_ref()).iter().map(norm));
        }
    }
    if total != nrows {
        return Err(Fail { stage: "read-row-count", col: None, msg: format!("read {total} rows, wrote {nrows}; text={:?}", String::from_utf8_lossy(&bytes)) });
    }
    for i in 0..ncols {
        if got[i] != expect[i] {
            return Err(Fail { stage: "read-value", col: Some(i), msg: format!("column {i} ({}) read back as {} expected {}; text={:?}", c.types[i], show_col(&got[i]), show_col(&expect[i]), String::from_utf8_lossy(&bytes)) });
        }
    }
    let quoted = bytes.contains(&o.quote);
    let nulls = expect.iter().any(|c| c.iter().any(|v| v.is_null()));
    Ok(format!("csv-rt:ok:quoted={}:nulls={}:batches={}", quoted as u8, nulls as u8, batches.len().min(3)))
}

// ---------------------------------------------------------------------------------------------
// blocks of cases

#[derive(Clone)]
pub enum Mode {
    /// full product: every column cell independently from its alphabet
    Product,
    /// `n` rotations of the alphabets (mixed-type schemas)
    Rotation(u64),
}

#[derive(Clone)]
pub struct Block {
    pub family: &'static str,
    pub opts: Opts,
    pub types: Vec<DataType>,
    pub rows: usize,
    /// per column alphabet (Null included when allowed)
    pub alpha: Vec<Arc<Vec<V>>>,
    pub mode: Mode,
}

impl Block {
    pub fn size(&self) -> u64 {
        match self.mode {
            Mode::Product => self.alpha.iter().map(|a| (a.len() as u64).pow(self.rows as u32)).product(),
            Mode::Rotation(n) => n,
        }
    }
    pub fn case(&self, local: u64) -> Case {
        let ncols = self.types.len();
        let mut cols: Vec<Vec<V>> = vec![vec![]; ncols];
        match self.mode {
            Mode::Product => {
                let mut i = local;
                for r in 0..self.rows {
                    let _ = r;
                    for c in 0..ncols {
                        let n = self.alpha[c].len() as u64;
                        cols[c].push(self.alpha[c][(i % n) as usize].clone());
                        i /= n;
                    }
                }
            }
            Mode::Rotation(_) => {
                for c in 0..ncols {
                    let n = self.alpha[c].len();
                    for r in 0..self.rows {
                        cols[c].push(self.alpha[c][(local as usize + r * (c + 1) + c) % n].clone());
                    }
                }
            }
        }
        Case { opts: self.opts.clone(), types: self.types.clone(), cols }
    }
}

/// string alphabet valid at an option point: the written text (after trimming) must not be read as
/// null (must not match the null regex), and in the first column must not start a comment line
fn string_alpha(base: &[String], o: &Opts, re: &Option<Regex>, first_col: bool) -> Vec<V> {
    let mut out: Vec<V> = vec![];
    for s in base {
        let t = trimmed(s, eff_trim(o));
        let is_null = match re {
            Some(r) => r.is_match(t),
            None => t.is_empty(),
        };
        if is_null {
            continue;
        }
        if first_col && o.qs == 0 {
            if let Some(c) = o.comment {
                if t.as_bytes().first() == Some(&c) {
                    continue;
                }
            }
        }
        out.push(V::S(s.clone()));
    }
    if o.nullable {
        out.push(V::Null);
    }
    out
}

fn typed_alpha(dt: &DataType, o: &Opts) -> Vec<V> {
    let mut a = alphabet(dt);
    if o.nullable || *dt == DataType::Null {
        a.push(V::Null);
    }
    a
}

/// long CSV fields: plain, multi-byte characters straddling the boundary, quote / delimiter / line
/// break exactly at the boundary positions, fields made of quotes only (doubling doubles the length)
pub fn long_csv_strings(thorough: bool) -> Vec<String> {
    let mut v = vec![];
    for l in long_lengths(thorough) {
        v.push(ascii_ramp(l));
        v.push(straddle(l, "é", 1));
        v.push(straddle(l, "𝄞", 2));
        v.push(straddle(l, "\"", 1));
        v.push(straddle(l, "\"", 0));
        v.push(straddle(l, ",", 1));
        v.push(straddle(l, "\",", 1));
        v.push(straddle(l, "\r\n", 1));
        v.push(straddle(l, ";'\t ", 2));
        v.push("\"".repeat(l));
        v.push(format!(" {} ", ascii_ramp(l - 2)));
    }
    v
}

pub fn build_blocks(ctx: &Ctx) -> Vec<Block> {
    let thorough = !ctx.quick();
    let kdev = ctx.pick(2, 3);
    let mut blocks: Vec<Block> = vec![];

    // ---- long fields: default option point and every 1-deviation point
    {
        let long = long_csv_strings(thorough);
        let mut sizes = DIM_SIZES;
        sizes[9] = 1;
        sizes[4] = 3;
        for p in dev_points(&sizes, 1) {
            let o = opts_from_point(&p);
            if !valid_point(&o, false) {
                continue;
            }
            let re = prepare(&o).null_re;
            let first = Arc::new(string_alpha(&long, &o, &re, true));
            let rest = Arc::new(string_alpha(&long, &o, &re, false));
            let short = Arc::new(string_alpha(&strings_a0(), &o, &re, false));
            let n = first.len() as u64;
            let utf = DataType::Utf8;
            blocks.push(Block { family: "long-1x1", opts: o.clone(), types: vec![utf.clone()], rows: 1, alpha: vec![first.clone()], mode: Mode::Product });
            blocks.push(Block { family: "long-3x1", opts: o.clone(), types: vec![utf.clone()], rows: 3, alpha: vec![first.clone()], mode: Mode::Rotation(n) });
            blocks.push(Block { family: "long-2x3", opts: o.clone(), types: vec![utf.clone(), utf.clone(), utf.clone()], rows: 2, alpha: vec![first.clone(), short.clone(), rest.clone()], mode: Mode::Rotation(n) });
        }
    }
    let a0 = strings_a0();
    let a1 = strings_a1();
    let full = strings_full();

    // ---- string families
    let mut sizes = DIM_SIZES;
    sizes[9] = 1; // formats: no effect on strings
    sizes[4] = 3; // no QuoteStyle::Never
    let a00: Vec<String> = ["", "a", ",", "\"", "\n"].iter().map(|s| s.to_string()).collect();
    for p in dev_points(&sizes, kdev) {
        let o = opts_from_point(&p);
        if !valid_point(&o, false) {
            continue;
        }
        let ndev = p.iter().filter(|x| **x != 0).count();
        let re = prepare(&o).null_re;
        let al = |base: &[String], first: bool| Arc::new(string_alpha(base, &o, &re, first));
        let (f_first, f_rest) = (al(&full, true), al(&full, false));
        let (a1_first, a1_rest) = (al(&a1, true), al(&a1, false));
        let (a0_first, a0_rest) = (al(&a0, true), al(&a0, false));
        let (a00_first, a00_rest) = (al(&a00, true), al(&a00, false));
        let utf = DataType::Utf8;
        let mut push = |family: &'static str, rows: usize, alpha: Vec<Arc<Vec<V>>>| {
            blocks.push(Block { family, opts: o.clone(), types: vec![utf.clone(); alpha.len()], rows, alpha, mode: Mode::Product });
        };
        push("str-1x1", 1, vec![f_first.clone()]);
        push("str-0rows", 0, vec![a0_first.clone(), a0_rest.clone()]);
        if thorough {
            // pairs over the full alphabet at <= 1 deviation, full x a1 at 2, a1 x a1 at 3
            match ndev {
                0 | 1 => {
                    push("str-1x2", 1, vec![f_first.clone(), f_rest.clone()]);
                    push("str-2x1", 2, vec![f_first.clone()]);
                }
                2 => {
                    push("str-1x2", 1, vec![f_first.clone(), a1_rest.clone()]);
                    push("str-1x2", 1, vec![a1_first.clone(), f_rest.clone()]);
                    push("str-2x1", 2, vec![a1_first.clone()]);
                }
                _ => {
                    push("str-1x2", 1, vec![a1_first.clone(), a1_rest.clone()]);
                    push("str-2x1", 2, vec![a1_first.clone()]);
                }
            }
            if ndev <= 2 {
                push("str-1x3", 1, vec![a1_first.clone(), a1_rest.clone(), a1_rest.clone()]);
                push("str-3x1", 3, vec![a1_first.clone()]);
                push("str-2x2", 2, vec![a0_first.clone(), a0_rest.clone()]);
            } else {
                push("str-1x3", 1, vec![a0_first.clone(), a0_rest.clone(), a0_rest.clone()]);
                push("str-3x1", 3, vec![a0_first.clone()]);
                push("str-2x2", 2, vec![a00_first.clone(), a00_rest.clone()]);
            }
        } else {
            if ndev <= 1 {
                push("str-1x2", 1, vec![f_first.clone(), a1_rest.clone()]);
                push("str-1x2", 1, vec![a1_first.clone(), f_rest.clone()]);
                push("str-2x2", 2, vec![a0_first.clone(), a0_rest.clone()]);
            } else {
                push("str-1x2", 1, vec![a1_first.clone(), a1_rest.clone()]);
                push("str-2x2", 2, vec![a00_first.clone(), a00_rest.clone()]);
            }
            push("str-2x1", 2, vec![a1_first.clone()]);
            push("str-1x3", 1, vec![a0_first.clone(), a0_rest.clone(), a0_rest.clone()]);
            push("str-3x1", 3, vec![a0_first.clone()]);
        }
    }

    // ---- typed families
    let mut sizes = DIM_SIZES;
    sizes[10] = 1; // trimming only applies to strings
    sizes[14] = 1;
    let grid = typed_grid();
    let core: Vec<DataType> = {
        use DataType::*;
        vec![Boolean, Int64, Float64, Decimal128(10, 2), Date32, Timestamp(TimeUnit::Millisecond, None), Timestamp(TimeUnit::Nanosecond, tz("+05:30")), Utf8]
    };
    let max_rows = ctx.pick(2, 3);
    for p in dev_points(&sizes, kdev) {
        let o = opts_from_point(&p);
        if !valid_point(&o, true) {
            continue;
        }
        let re = prepare(&o).null_re;
        for dt in &grid {
            if o.fmt == 1 && !dt.is_temporal() {
                continue; // custom formats are a no-op for non temporal columns
            }
            let alpha = Arc::new(typed_alpha(dt, &o));
            if alpha.is_empty() {
                continue;
            }
            let ndev = p.iter().filter(|x| **x != 0).count();
            for rows in 0..=max_rows {
                if rows > 2 && (alpha.len() > 12 || ndev > 2) {
                    continue;
                }
                blocks.push(Block { family: "typed-1col", opts: o.clone(), types: vec![dt.clone()], rows, alpha: vec![alpha.clone()], mode: Mode::Product });
            }
        }
        // mixed schemas of three columns, three rows, rotations of the alphabets
        if o.qs == 3 {
            continue; // strings in the core grid
        }
        let calpha: Vec<Arc<Vec<V>>> = core.iter().map(|dt| if *dt == DataType::Utf8 { Arc::new(string_alpha(&a1, &o, &re, false)) } else { Arc::new(typed_alpha(dt, &o)) }).collect();
        let first_str = Arc::new(string_alpha(&a1, &o, &re, true));
        for (i, t1) in core.iter().enumerate() {
            for (j, t2) in core.iter().enumerate() {
                for (k, t3) in core.iter().enumerate() {
                    let a_first = if *t1 == DataType::Utf8 { first_str.clone() } else { calpha[i].clone() };
                    let alpha = vec![a_first, calpha[j].clone(), calpha[k].clone()];
                    let n = alpha.iter().map(|a| a.len()).max().unwrap() as u64;
                    blocks.push(Block { family: "mixed-3col", opts: o.clone(), types: vec![t1.clone(), t2.clone(), t3.clone()], rows: 3, alpha, mode: Mode::Rotation(ctx.pick(n.min(6), n.min(10))) });
                }
            }
        }
    }
    blocks
}

// ---------------------------------------------------------------------------------------------
// shrinking + fingerprints

fn opts_to_point(o: &Opts) -> Vec<usize> {
    vec![
        DELIMS.iter().position(|x| *x == o.delim).unwrap(),
        QUOTES.iter().position(|x| *x == o.quote).unwrap(),
        ESCS.iter().position(|x| *x == o.esc).unwrap(),
        TERMS.iter().position(|x| *x == o.term).unwrap(),
        o.qs as usize,
        !o.header as usize,
        o.hval as usize,
        o.names as usize,
        o.null,
        o.fmt as usize,
        o.trim as usize,
        o.comment.is_some() as usize,
        o.truncated as usize,
        BATCHES.iter().position(|x| *x == o.batch).unwrap(),
        o.strty as usize,
        o.layout as usize,
        !o.nullable as usize,
    ]
}

/// is the case inside the constructed space (so that shrinking never leaves it)?
fn case_in_space(c: &Case) -> bool {
    let any_typed = c.types.iter().any(|t| *t != DataType::Utf8);
    let all_typed = c.types.iter().all(|t| *t != DataType::Utf8);
    if !valid_point(&c.opts, any_typed) || (c.opts.qs == 3 && !all_typed) {
        return false;
    }
    let re = prepare(&c.opts).null_re;
    for (i, col) in c.cols.iter().enumerate() {
        for v in col {
            match v {
                V::Null => {
                    if !c.opts.nullable && c.types[i] != DataType::Null {
                        return false;
                    }
                }
                V::S(s) => {
                    if string_alpha(std::slice::from_ref(s), &c.opts, &re, i == 0).iter().all(|x| x.is_null()) {
                        return false;
                    }
                }
                _ => {}
            }
        }
    }
    true
}

fn role_tags(s: &str, o: &Opts) -> String {
    let mut tags: Vec<&str> = vec![];
    for b in s.bytes() {
        let t = if b == o.delim {
            "DELIM"
        } else if b == o.quote {
            "QUOTE"
        } else if Some(b) == o.esc {
            "ESC"
        } else if Some(b) == o.comment {
            "COMMENT"
        } else if matches!(o.term, Term::Any(t) if t == b) {
            "TERM"
        } else if b == b'\r' {
            "CR"
        } else if b == b'\n' {
            "LF"
        } else if b == b' ' || b == b'\t' {
            "WS"
        } else if b < 0x20 {
            "CTRL"
        } else if b >= 0x80 {
            "NONASCII"
        } else {
            "PLAIN"
        };
        if !tags.contains(&t) {
            tags.push(t);
        }
    }
    if s.is_empty() {
        tags.push("EMPTY");
    }
    tags.sort();
    tags.join("+")
}

fn type_class(dt: &DataType) -> String {
    match dt {
        DataType::Timestamp(u, z) => format!("Timestamp({u:?},{})", if z.is_some() { "tz" } else { "none" }),
        DataType::Decimal32(..) => "Decimal32".into(),
        DataType::Decimal64(..) => "Decimal64".into(),
        DataType::Decimal128(..) => "Decimal128".into(),
        DataType::Decimal256(..) => "Decimal256".into(),
        DataType::FixedSizeBinary(_) => "FixedSizeBinary".into(),
        o => format!("{o}"),
    }
}

/// Delta-debugs a failing case inside the constructed space: resets option deviations, drops rows and
/// columns, simplifies cells, as long as the same stage keeps failing. Deterministic.
pub fn shrink(c: &Case, stage: &'static str) -> (Case, Fail) {
    let fails = |c: &Case| -> Option<Fail> {
        if !case_in_space(c) {
            return None;
        }
        let _ = stage;
        match run_case(c, &prepare(&c.opts)) {
            Err(f) if f.stage != "harness" => Some(f),
            _ => None,
        }
    };
    let mut cur = c.clone();
    let mut last = fails(&cur).unwrap_or(Fail { stage: "nondeterministic", col: None, msg: "violation did not reproduce on re-execution".into() });
    if last.stage == "nondeterministic" {
        return (cur, last);
    }
    let mut changed = true;
    while changed {
        changed = false;
        // option deviations -> default
        let p = opts_to_point(&cur.opts);
        for d in 0..p.len() {
            if p[d] != 0 {
                let mut q = opts_to_point(&cur.opts);
                q[d] = 0;
                let mut t = cur.clone();
                t.opts = opts_from_point(&q);
                if let Some(f) = fails(&t) {
                    cur = t;
                    last = f;
                    changed = true;
                }
            }
        }
        // drop columns
        let mut ci = 0;
        while cur.types.len() > 1 && ci < cur.types.len() {
            let mut t = cur.clone();
            t.types.remove(ci);
            t.cols.remove(ci);
            if let Some(f) = fails(&t) {
                cur = t;
                last = f;
                changed = true;
            } else {
                ci += 1;
            }
        }
        // drop rows
        let mut ri = 0;
        while ri < cur.cols[0].len() {
            let mut t = cur.clone();
            for col in t.cols.iter_mut() {
                col.remove(ri);
            }
            if let Some(f) = fails(&t) {
                cur = t;
                last = f;
                changed = true;
            } else {
                ri += 1;
            }
        }
        // simplify string cells: drop single characters (short strings) or halves (long strings)
        for ci in 0..cur.types.len() {
            for ri in 0..cur.cols[ci].len() {
                if let V::S(s) = cur.cols[ci][ri].clone() {
                    let chars: Vec<char> = s.chars().collect();
                    let cands: Vec<String> = if chars.len() <= 8 {
                        (0..chars.len())
                            .map(|k| {
                                let mut cs = chars.clone();
                                cs.remove(k);
                                cs.into_iter().collect()
                            })
                            .collect()
                    } else {
                        let h = chars.len() / 2;
                        vec![chars[h..].iter().collect(), chars[..h].iter().collect(), chars[1..].iter().collect(), chars[..chars.len() - 1].iter().collect()]
                    };
                    for cand in cands {
                        let mut t = cur.clone();
                        t.cols[ci][ri] = V::S(cand);
                        if let Some(f) = fails(&t) {
                            cur = t;
                            last = f;
                            changed = true;
                            break;
                        }
                    }
                }
            }
        }
    }
    (cur, last)
}

/// text actually written for a cell (null -> sentinel, strings after trimming); None for typed values
fn written_text(min: &Case, v: &V) -> Option<String> {
    match v {
        V::Null => Some(NULLS[min.opts.null].0.to_string()),
        V::S(s) => Some(trimmed(s, eff_trim(&min.opts)).to_string()),
        _ => None,
    }
}

/// Triaged root causes get one semantic fingerprint each; decided on the case itself (no shrinking
/// needed, which keeps a defect that hits several hundred thousand cases cheap).
pub fn known_root_cause(c: &Case) -> Option<&'static str> {
    if c.types.iter().any(|t| matches!(t, DataType::Decimal32(_, s) | DataType::Decimal64(_, s) | DataType::Decimal128(_, s) | DataType::Decimal256(_, s) if *s < 0)) {
        // arrow_cast::parse::parse_decimal treats a negative scale like scale 0
        return Some("c17:decimal-negative-scale:parse_decimal-ignores-negative-scale");
    }
    if let Some(e) = c.opts.esc {
        let in_cells = c.cols.iter().flatten().filter_map(|v| written_text(c, v)).any(|t| t.as_bytes().contains(&e));
        let in_header = c.opts.header && field_names(&c.opts, c.types.len()).iter().any(|n| n.as_bytes().contains(&e));
        if in_cells || in_header {
            return Some("c17:csv:double_quote=false:escape-byte-in-field-not-escaped");
        }
    }
    None
}

pub fn fingerprint(min: &Case, f: &Fail) -> String {
    if let Some(k) = known_root_cause(min) {
        return k.into();
    }
    let group = if f.stage.starts_with("text-") {
        "written-text"
    } else if f.stage.starts_with("read-") {
        "read-back"
    } else {
        f.stage
    };
    let f = &Fail { stage: group, col: f.col, msg: String::new() };
    let p = opts_to_point(&min.opts);
    let devs: Vec<String> = p.iter().enumerate().filter(|(_, v)| **v != 0).map(|(d, _)| DIM_NAMES[d].to_string()).collect();
    let col = f.col.unwrap_or(0).min(min.types.len().saturating_sub(1));
    let tclass = min.types.get(col).map(type_class).unwrap_or_default();
    let cell = match min.cols.get(col).and_then(|c| c.iter().find(|v| !v.is_null())) {
        Some(V::S(s)) => role_tags(s, &min.opts),
        Some(_) => "value".into(),
        None => "null-or-empty".into(),
    };
    format!("c17:csv:{}:{}:opts[{}]:cell[{}]", f.stage, tclass, devs.join(","), cell)
}

pub fn case_json(sub: &str, idx: u64, tier: &str, c: &Case) -> Value {
    json!({
        "sub": sub, "idx": idx, "tier": tier,
        "options": format!("{:?}", c.opts),
        "types": c.types.iter().map(|t| t.to_string()).collect::<Vec<_>>(),
        "columns": c.cols.iter().map(|c| show_col(c)).collect::<Vec<_>>(),
    })
}

// ---------------------------------------------------------------------------------------------
// (iii) RFC 4180 grammar texts -> arrow-csv reader

#[derive(Clone, Debug)]
pub struct GField {
    pub quoted: bool,
    pub content: String,
}

fn g_unquoted() -> Vec<GField> {
    ["", "a", " ", "a ", " a", "#", "é", "a#", "\\", "'"].iter().map(|s| GField { quoted: false, content: s.to_string() }).collect()
}
fn g_quoted(maxlen: usize) -> Vec<GField> {
    let chars = ['a', ',', '"', '\r', '\n', ' '];
    let mut v = vec![GField { quoted: true, content: String::new() }];
    for a in chars {
        v.push(GField { quoted: true, content: a.to_string() });
    }
    if maxlen >= 2 {
        for a in chars {
            for b in chars {
                v.push(GField { quoted: true, content: format!("{a}{b}") });
            }
        }
    }
    v
}

pub struct GBlock {
    pub rows: usize,
    pub cols: usize,
    pub fields: Arc<Vec<GField>>,
}

/// line ending between records: 0 CRLF (RFC 4180), 1 LF; final line break present or not;
/// dialect 0: `,` and `"`; 1: `;` and `'`
pub const G_VARIANTS: u64 = 8;

pub fn grammar_blocks(ctx: &Ctx) -> Vec<GBlock> {
    let mut all = g_unquoted();
    all.extend(g_quoted(2));
    let all = Arc::new(all);
    let mut small = g_unquoted()[..4].to_vec();
    small.extend(g_quoted(1));
    small.extend([",\"", "\"\"", "\r\n", "\n,"].iter().map(|s| GField { quoted: true, content: s.to_string() }));
    let small = Arc::new(small);
    let mut tiny = g_unquoted()[..3].to_vec();
    tiny.extend(g_quoted(1)[..5].to_vec());
    let tiny = Arc::new(tiny);
    let mut v = vec![
        GBlock { rows: 1, cols: 1, fields: all.clone() },
        GBlock { rows: 1, cols: 2, fields: all.clone() },
        GBlock { rows: 2, cols: 1, fields: all.clone() },
        GBlock { rows: 2, cols: 2, fields: small.clone() },
        GBlock { rows: 1, cols: 3, fields: ctx.pick(small.clone(), all.clone()) },
        GBlock { rows: 3, cols: 1, fields: ctx.pick(small.clone(), all.clone()) },
    ];
    if !ctx.quick() {
        v.push(GBlock { rows: 2, cols: 3, fields: tiny.clone() });
        v.push(GBlock { rows: 3, cols: 2, fields: tiny.clone() });
    }
    v
}

impl GBlock {
    pub fn size(&self) -> u64 {
        (self.fields.len() as u64).pow((self.rows * self.cols) as u32) * G_VARIANTS
    }
}

pub struct GCase {
    pub text: Vec<u8>,
    pub cells: Vec<Vec<String>>,
    pub delim: u8,
    pub quote: u8,
    /// a record consisting of one empty unquoted field = empty line (excluded class)
    pub has_empty_line: bool,
}

pub fn grammar_case(b: &GBlock, local: u64) -> GCase {
    let variant = local % G_VARIANTS;
    let mut i = local / G_VARIANTS;
    let (lf_only, final_break, alt) = (variant & 1 != 0, variant & 2 != 0, variant & 4 != 0);
    let (delim, quote) = if alt { (b';', b'\'') } else { (b',', b'"') };
    let n = b.fields.len() as u64;
    let mut text: Vec<u8> = vec![];
    let mut cells = vec![];
    let mut has_empty_line = false;
    for r in 0..b.rows {
        let mut row = vec![];
        for c in 0..b.cols {
            let f = &b.fields[(i % n) as usize];
            i /= n;
            // in the alternative dialect the roles of , " and ; ' are swapped in the content
            let content: String = if alt {
                f.content.chars().map(|ch| match ch { ',' => ';', '"' => '\'', '\'' => '"', o => o }).collect()
            } else {
                f.content.clone()
            };
            if c > 0 {
                text.push(delim);
            }
            if f.quoted {
                text.push(quote);
                for ch in content.bytes() {
                    if ch == quote {
                        text.push(quote);
                    }
                    text.push(ch);
                }
                text.push(quote);
            } else {
                text.extend(content.bytes());
            }
            if b.cols == 1 && !f.quoted && content.is_empty() {
                has_empty_line = true;
            }
            row.push(content);
        }
        cells.push(row);
        if r + 1 < b.rows || final_break {
            if lf_only {
                text.push(b'\n');
            } else {
                text.extend(b"\r\n");
            }
        }
    }
    GCase { text, cells, delim, quote, has_empty_line }
}

pub fn run_grammar_case(g: &GCase, ncols: usize) -> Result<String, Fail> {
    if g.has_empty_line {
        // RFC 4180 reads an empty line as a record with one empty field; csv-core (and so arrow-csv)
        // documents that empty lines are skipped. Not claimed.
        return Ok("csv-grammar:excluded:empty-line".into());
    }
    let d = Dialect { delim: g.delim, quote: g.quote, esc: None, term: None };
    let recs = split(&g.text, &d).map_err(|e| Fail { stage: "harness", col: None, msg: format!("own splitter rejects generated text {:?}: {e}", String::from_utf8_lossy(&g.text)) })?;
    let as_str: Vec<Vec<String>> = recs.iter().map(|r| r.iter().map(|f| String::from_utf8_lossy(f).to_string()).collect()).collect();
    if as_str != g.cells {
        return Err(Fail { stage: "harness", col: None, msg: format!("own splitter disagrees with generator on {:?}: {:?} vs {:?}", String::from_utf8_lossy(&g.text), as_str, g.cells) });
    }
    let schema = Arc::new(Schema::new((0..ncols).map(|i| Field::new(format!("c{i}"), DataType::Utf8, true)).collect::<Vec<_>>()));
    let rd = catch(|| -> Result<Vec<RecordBatch>, arrow_schema::ArrowError> {
        let r = ReaderBuilder::new(schema.clone()).with_header(false).with_delimiter(g.delim).with_quote(g.quote).build(std::io::Cursor::new(&g.text))?;
        r.collect()
    });
    let batches = match rd {
        Err(p) => return Err(Fail { stage: "grammar-read-panic", col: None, msg: format!("{}; text={:?}", p.fingerprint(), String::from_utf8_lossy(&g.text)) }),
        Ok(Err(e)) => return Err(Fail { stage: "grammar-read-error", col: None, msg: format!("{e}; text={:?}", String::from_utf8_lossy(&g.text)) }),
        Ok(Ok(b)) => b,
    };
    let mut got: Vec<Vec<V>> = vec![vec![]; ncols];
    for b in &batches {
        for (i, col) in b.columns().iter().enumerate() {
            if let Err(e) = col.to_data().validate_full() {
                return Err(Fail { stage: "wf", col: Some(i), msg: format!("validate_full: {e}") });
            }
            got[i].extend(extract(col.as_ref()));
        }
    }
    // reader default: the empty string is null (documented null regex `^$`)
    let want: Vec<Vec<V>> = (0..ncols).map(|c| g.cells.iter().map(|r| if r[c].is_empty() { V::Null } else { V::s(&r[c]) }).collect()).collect();
    if got != want {
        return Err(Fail { stage: "grammar-fields", col: None, msg: format!("text {:?} read as {:?}, RFC 4180 fields are {:?}", String::from_utf8_lossy(&g.text), got.iter().map(|c| show_col(c)).collect::<Vec<_>>(), g.cells) });
    }
    let q = g.text.contains(&g.quote);
    Ok(format!("csv-grammar:ok:quoted={}", q as u8))
}

// ---------------------------------------------------------------------------------------------

pub fn tier_name(ctx: &Ctx) -> &'static str {
    if ctx.quick() { "quick" } else { "thorough" }
}

/// re-executes one round-trip case by index (replay)
pub fn replay_rt(ctx: &Ctx, idx: u64) -> Result<String, String> {
    let blocks = Blocks::new(build_blocks(ctx), |b| b.size());
    if idx >= blocks.total {
        return Err(format!("index {idx} outside the space ({})", blocks.total));
    }
    let (bi, local) = blocks.locate(idx);
    let c = blocks.blocks[bi].case(local);
    println!("case: {}", case_json("csv-rt", idx, tier_name(ctx), &c));
    match run_case(&c, &prepare(&c.opts)) {
        Ok(o) => Ok(o),
        Err(f) => {
            let (min, mf) = shrink(&c, f.stage);
            Err(format!("{}: {}\n  minimal: {} -> {}: {}", f.stage, f.msg, case_json("csv-rt", idx, tier_name(ctx), &min), fingerprint(&min, &mf), mf.msg))
        }
    }
}

pub fn replay_grammar(ctx: &Ctx, idx: u64) -> Result<String, String> {
    let blocks = Blocks::new(grammar_blocks(ctx), |b| b.size());
    let (bi, local) = blocks.locate(idx);
    let g = grammar_case(&blocks.blocks[bi], local);
    println!("text: {:?}\nRFC 4180 fields: {:?}", String::from_utf8_lossy(&g.text), g.cells);
    run_grammar_case(&g, blocks.blocks[bi].cols).map_err(|f| format!("{}: {}", f.stage, f.msg))
}

pub fn run(ctx: &Ctx, order_base: u64) -> Stats {
    let mut st = Stats::new();
    let tier = tier_name(ctx);

    // ---- (i)+(ii) round trips
    let blocks = Blocks::new(build_blocks(ctx), |b| b.size());
    let n = blocks.total;
    let nblocks = blocks.blocks.len();
    let points = {
        let mut pts: Vec<String> = blocks.blocks.iter().map(|b| format!("{:?}", b.opts)).collect();
        pts.sort();
        pts.dedup();
        pts.len()
    };
    let res = par_for(ctx, "csv-rt", n, 256, |idx, st| {
        let (bi, local) = blocks.locate(idx);
        let b = &blocks.blocks[bi];
        let c = b.case(local);
        let r = run_case(&c, &prepare(&b.opts));
        let sub = format!("csv-rt:{}", b.family);
        st.add(&sub, 1, (b.rows > 0) as u64);
        match r {
            Ok(class) => st.outcome(&class),
            Err(f) if f.stage == "harness" => st.violate(order_base + idx, format!("c17:csv:HARNESS:{}", f.msg.chars().take(40).collect::<String>()), f.msg.clone(), || case_json("csv-rt", idx, tier, &c)),
            Err(f) if known_root_cause(&c).is_some() => {
                st.outcome(&format!("csv-rt:violation:{}", f.stage));
                st.violate(order_base + idx, known_root_cause(&c).unwrap(), format!("{} | types={:?} columns={:?} options={:?}", f.msg, c.types.iter().map(|t| t.to_string()).collect::<Vec<_>>(), c.cols.iter().map(|c| show_col(c)).collect::<Vec<_>>(), c.opts), || case_json("csv-rt", idx, tier, &c));
            }
            Err(f) => {
                let (min, mf) = shrink(&c, f.stage);
                let fp = if mf.stage == "nondeterministic" { "c17:csv:NONDETERMINISTIC".to_string() } else { fingerprint(&min, &mf) };
                st.outcome(&format!("csv-rt:violation:{}", f.stage));
                st.violate(order_base + idx, fp, format!("{} | minimal case: types={:?} columns={:?} options={:?} -> {}", f.msg, min.types.iter().map(|t| t.to_string()).collect::<Vec<_>>(), min.cols.iter().map(|c| show_col(c)).collect::<Vec<_>>(), min.opts, mf.msg), || {
                    let mut j = case_json("csv-rt", idx, tier, &c);
                    j["minimal"] = case_json("csv-rt", idx, tier, &min);
                    j
                });
            }
        }
        if local == 0 && (bi == 0 || bi == nblocks / 2) {
            st.sample(&sub, || case_json("csv-rt", idx, tier, &c));
        }
    });
    st.merge(res);
    st.extra.insert("csv_rt".into(), json!({"cases": n, "blocks": nblocks, "option_points": points, "max_deviations": ctx.pick(2, 3)}));

    // ---- (iii) grammar
    let gblocks = Blocks::new(grammar_blocks(ctx), |b| b.size());
    let gn = gblocks.total;
    let base2 = order_base + n;
    let res = par_for(ctx, "csv-grammar", gn, 512, |idx, st| {
        let (bi, local) = gblocks.locate(idx);
        let b = &gblocks.blocks[bi];
        let g = grammar_case(b, local);
        let r = run_grammar_case(&g, b.cols);
        st.add("csv-grammar", 1, (!g.has_empty_line) as u64);
        match r {
            Ok(class) => st.outcome(&class),
            Err(f) => {
                let q = g.text.contains(&g.quote);
                st.violate(base2 + idx, format!("c17:csv:{}:quoted={}", f.stage, q as u8), f.msg.clone(), || json!({"sub":"csv-grammar","idx":idx,"tier":tier,"text":String::from_utf8_lossy(&g.text),"fields":g.cells}));
            }
        }
        if idx == gn / 3 {
            st.sample("csv-grammar", || json!({"text": String::from_utf8_lossy(&g.text), "fields": g.cells}));
        }
    });
    st.merge(res);
    st.extra.insert("csv_grammar".into(), json!({"texts": gn}));
    st.count("order_span_csv", n + gn);
    st
}
