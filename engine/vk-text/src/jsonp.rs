//! A strict RFC 8259 parser written for this engine (keeps number texts verbatim).
//! It is the auxiliary reference next to serde_json: the two are cross-checked on every document, so a
//! mistake in either shows up as a harness error, not as a verdict about arrow-json.

#[derive(Clone, Debug, PartialEq)]
pub enum J {
    Null,
    Bool(bool),
    /// raw number text
    Num(String),
    Str(String),
    Arr(Vec<J>),
    Obj(Vec<(String, J)>),
}

#[derive(Clone, Debug, PartialEq)]
pub enum PErr {
    Syntax(String),
    /// grammatically valid `\uXXXX` escape that is an unpaired surrogate (RFC 8259 section 8.2:
    /// "the behavior of software that receives ... such values is unpredictable")
    LoneSurrogate,
}

struct P<'a> {
    b: &'a [u8],
    i: usize,
}

fn syn<T>(m: &str, at: usize) -> Result<T, PErr> {
    Err(PErr::Syntax(format!("{m} at byte {at}")))
}

impl<'a> P<'a> {
    fn ws(&mut self) {
        while self.i < self.b.len() && matches!(self.b[self.i], b' ' | b'\t' | b'\n' | b'\r') {
            self.i += 1;
        }
    }
    fn lit(&mut self, s: &str, v: J) -> Result<J, PErr> {
        if self.b[self.i..].starts_with(s.as_bytes()) {
            self.i += s.len();
            Ok(v)
        } else {
            syn("bad literal", self.i)
        }
    }
    fn value(&mut self, depth: usize) -> Result<J, PErr> {
        self.ws();
        let Some(&c) = self.b.get(self.i) else { return syn("unexpected end", self.i) };
        let v = match c {
            b'n' => self.lit("null", J::Null)?,
            b't' => self.lit("true", J::Bool(true))?,
            b'f' => self.lit("false", J::Bool(false))?,
            b'"' => J::Str(self.string()?),
            b'-' | b'0'..=b'9' => self.number()?,
            b'[' => {
                self.i += 1;
                let mut items = vec![];
                self.ws();
                if self.b.get(self.i) == Some(&b']') {
                    self.i += 1;
                } else {
                    loop {
                        items.push(self.value(depth + 1)?);
                        match self.b.get(self.i) {
                            Some(b',') => self.i += 1,
                            Some(b']') => {
                                self.i += 1;
                                break;
                            }
                            _ => return syn("expected , or ]", self.i),
                        }
                    }
                }
                J::Arr(items)
            }
            b'{' => {
                self.i += 1;
                let mut items = vec![];
                self.ws();
                if self.b.get(self.i) == Some(&b'}') {
                    self.i += 1;
                } else {
                    loop {
                        self.ws();
                        if self.b.get(self.i) != Some(&b'"') {
                            return syn("expected key", self.i);
                        }
                        let k = self.string()?;
                        self.ws();
                        if self.b.get(self.i) != Some(&b':') {
                            return syn("expected :", self.i);
                        }
                        self.i += 1;
                        let v = self.value(depth + 1)?;
                        items.push((k, v));
                        match self.b.get(self.i) {
                            Some(b',') => self.i += 1,
                            Some(b'}') => {
                                self.i += 1;
                                break;
                            }
                            _ => return syn("expected , or }", self.i),
                        }
                    }
                }
                J::Obj(items)
            }
            _ => return syn("unexpected byte", self.i),
        };
        self.ws();
        Ok(v)
    }
    fn number(&mut self) -> Result<J, PErr> {
        let s = self.i;
        if self.b.get(self.i) == Some(&b'-') {
            self.i += 1;
        }
        match self.b.get(self.i) {
            Some(b'0') => self.i += 1,
            Some(b'1'..=b'9') => {
                while matches!(self.b.get(self.i), Some(b'0'..=b'9')) {
                    self.i += 1;
                }
            }
            _ => return syn("digit expected", self.i),
        }
        if self.b.get(self.i) == Some(&b'.') {
            self.i += 1;
            if !matches!(self.b.get(self.i), Some(b'0'..=b'9')) {
                return syn("fraction digit expected", self.i);
            }
            while matches!(self.b.get(self.i), Some(b'0'..=b'9')) {
                self.i += 1;
            }
        }
        if matches!(self.b.get(self.i), Some(b'e' | b'E')) {
            self.i += 1;
            if matches!(self.b.get(self.i), Some(b'+' | b'-')) {
                self.i += 1;
            }
            if !matches!(self.b.get(self.i), Some(b'0'..=b'9')) {
                return syn("exponent digit expected", self.i);
            }
            while matches!(self.b.get(self.i), Some(b'0'..=b'9')) {
                self.i += 1;
            }
        }
        Ok(J::Num(String::from_utf8(self.b[s..self.i].to_vec()).unwrap()))
    }
    fn hex4(&mut self) -> Result<u32, PErr> {
        let Some(h) = self.b.get(self.i..self.i + 4) else { return syn("short \\u escape", self.i) };
        let mut v = 0u32;
        for c in h {
            let d = match c {
                b'0'..=b'9' => c - b'0',
                b'a'..=b'f' => c - b'a' + 10,
                b'A'..=b'F' => c - b'A' + 10,
                _ => return syn("bad hex digit", self.i),
            };
            v = v * 16 + d as u32;
        }
        self.i += 4;
        Ok(v)
    }
    fn string(&mut self) -> Result<String, PErr> {
        self.i += 1; // opening quote
        let mut out: Vec<u8> = vec![];
        let mut lone = false;
        loop {
            let Some(&c) = self.b.get(self.i) else { return syn("unterminated string", self.i) };
            match c {
                b'"' => {
                    self.i += 1;
                    break;
                }
                b'\\' => {
                    self.i += 1;
                    let Some(&e) = self.b.get(self.i) else { return syn("unterminated escape", self.i) };
                    self.i += 1;
                    match e {
                        b'"' => out.push(b'"'),
                        b'\\' => out.push(b'\\'),
                        b'/' => out.push(b'/'),
                        b'b' => out.push(8),
                        b'f' => out.push(12),
                        b'n' => out.push(b'\n'),
                        b'r' => out.push(b'\r'),
                        b't' => out.push(b'\t'),
                        b'u' => {
                            let u = self.hex4()?;
                            let ch = if (0xD800..0xDC00).contains(&u) {
                                // need a low surrogate escape right after
                                if self.b.get(self.i) == Some(&b'\\') && self.b.get(self.i + 1) == Some(&b'u') {
                                    let save = self.i;
                                    self.i += 2;
                                    let lo = self.hex4()?;
                                    if (0xDC00..0xE000).contains(&lo) {
                                        char::from_u32(0x10000 + ((u - 0xD800) << 10) + (lo - 0xDC00))
                                    } else {
                                        self.i = save;
                                        None
                                    }
                                } else {
                                    None
                                }
                            } else if (0xDC00..0xE000).contains(&u) {
                                None
                            } else {
                                char::from_u32(u)
                            };
                            match ch {
                                Some(ch) => {
                                    let mut buf = [0u8; 4];
                                    out.extend(ch.encode_utf8(&mut buf).as_bytes());
                                }
                                None => lone = true,
                            }
                        }
                        _ => return syn("bad escape", self.i - 1),
                    }
                }
                0..=0x1f => return syn("unescaped control character", self.i),
                _ => {
                    out.push(c);
                    self.i += 1;
                }
            }
        }
        if lone {
            // keep scanning semantics simple: report after the string has been delimited, so that a
            // document with a syntax error elsewhere is still classified by whichever comes first
            return Err(PErr::LoneSurrogate);
        }
        match String::from_utf8(out) {
            Ok(s) => Ok(s),
            Err(_) => syn("invalid utf-8 in string", self.i),
        }
    }
}

/// Parses exactly one JSON text (RFC 8259 section 2: `ws value ws`).
pub fn parse(text: &[u8]) -> Result<J, PErr> {
    if std::str::from_utf8(text).is_err() {
        return syn("input is not UTF-8", 0);
    }
    let mut p = P { b: text, i: 0 };
    let v = p.value(0)?;
    if p.i != text.len() {
        return syn("trailing characters", p.i);
    }
    Ok(v)
}

/// Sequence of whitespace-separated JSON texts (what line-delimited JSON is)
pub fn parse_seq(text: &[u8]) -> Result<Vec<J>, PErr> {
    if std::str::from_utf8(text).is_err() {
        return syn("input is not UTF-8", 0);
    }
    let mut p = P { b: text, i: 0 };
    let mut out = vec![];
    p.ws();
    while p.i < text.len() {
        out.push(p.value(0)?);
    }
    Ok(out)
}

/// structural comparison with serde_json's reading of the same text: numbers compared through
/// `str::parse::<f64>` of the raw text vs serde's f64 (serde_json without arbitrary_precision), strings
/// and keys exactly, objects as ordered lists after serde's last-wins de-duplication
pub fn agrees_with_serde(j: &J, s: &serde_json::Value) -> bool {
    use serde_json::Value as S;
    match (j, s) {
        (J::Null, S::Null) => true,
        (J::Bool(a), S::Bool(b)) => a == b,
        (J::Num(raw), S::Number(n)) => match (raw.parse::<f64>(), n.as_f64()) {
            (Ok(a), Some(b)) => a == b || (a.is_nan() && b.is_nan()),
            _ => false,
        },
        (J::Str(a), S::String(b)) => a == b,
        (J::Arr(a), S::Array(b)) => a.len() == b.len() && a.iter().zip(b).all(|(x, y)| agrees_with_serde(x, y)),
        (J::Obj(a), S::Object(b)) => {
            // last occurrence of a key wins in serde_json
            let mut keys: Vec<&String> = vec![];
            for (k, _) in a {
                if !keys.contains(&k) {
                    keys.push(k);
                }
            }
            keys.len() == b.len()
                && keys.iter().all(|k| {
                    let last = a.iter().rev().find(|(kk, _)| kk == *k).map(|(_, v)| v).unwrap();
                    b.get(k.as_str()).map(|sv| agrees_with_serde(last, sv)).unwrap_or(false)
                })
        }
        _ => false,
    }
}

pub fn has_duplicate_keys(j: &J) -> bool {
    match j {
        J::Arr(a) => a.iter().any(has_duplicate_keys),
        J::Obj(o) => {
            for (i, (k, v)) in o.iter().enumerate() {
                if o[..i].iter().any(|(kk, _)| kk == k) || has_duplicate_keys(v) {
                    return true;
                }
            }
            false
        }
        _ => false,
    }
}

#[cfg(test)]
mod tests {
    use super::*;
    #[test]
    fn basics() {
        assert_eq!(parse(b" [1, -0.5e+3 ,\"a\\u00e9\\uD83D\\uDE00\"] ").unwrap(), J::Arr(vec![J::Num("1".into()), J::Num("-0.5e+3".into()), J::Str("aé😀".into())]));
        assert!(matches!(parse(b"01"), Err(PErr::Syntax(_))));
        assert!(matches!(parse(b"\"\\uD83D\""), Err(PErr::LoneSurrogate)));
        assert!(matches!(parse(b"\"\\uD83Dx\""), Err(PErr::LoneSurrogate)));
        assert!(matches!(parse(b"{\"a\":1,}"), Err(PErr::Syntax(_))));
        assert!(matches!(parse(b"1 2"), Err(PErr::Syntax(_))));
        assert_eq!(parse_seq(b"1 2\n{}").unwrap().len(), 3);
    }
}
