//! C17 / JSON sub-engine.
//!
//! (i)   read(write(batch)) == batch for every constructed (schema, cells, option point)
//! (ii)  the written bytes are parsed by serde_json and by this crate's strict RFC 8259 parser
//!       (cross-checked against each other) and every value is decoded independently
//! (iii) RFC 8259 documents enumerated from small grammars (numbers, strings, whitespace placements,
//!       token structures): whatever serde_json accepts, arrow-json must accept with the same values
use crate::csvx::{alphabet as scalar_alphabet, decode_text, tz};
use crate::jsonp::{self, J, PErr};
use crate::util::*;
use crate::val::*;
use arrow_array::{Array, ArrayRef, RecordBatch};
use arrow_json::writer::{JsonArray, LineDelimited};
use arrow_json::{ReaderBuilder, StructMode, WriterBuilder};
use arrow_schema::{DataType, Field, Fields, Schema, TimeUnit};
use std::sync::Arc;
use vcore::serde_json::{Value, json};
use vcore::{Ctx, Stats, catch, par_for};

#[derive(Clone, Debug)]
pub struct JOpts {
    pub array_fmt: bool,
    pub explicit_nulls: bool,
    pub list_mode: bool,
    pub coerce: bool,
    pub strict: bool,
    pub batch: usize,
    /// 0 compact, 1 sliced(1), 2 sliced(9)
    pub layout: u8,
    pub fmt: u8,
    pub names: u8,
    pub nullable: bool,
    /// 0 Utf8, 1 LargeUtf8, 2 Utf8View
    pub strty: u8,
}

pub const DIM_NAMES: [&str; 11] = ["array_format", "explicit_nulls", "struct_mode_list", "coerce_primitive", "strict_mode", "batch_size", "layout", "formats", "names", "nullable", "string_type"];
const DIM_SIZES: [usize; 11] = [2, 2, 2, 2, 2, 3, 3, 2, 2, 2, 3];
const BATCHES: [usize; 3] = [1024, 1, 2];

pub fn opts_from_point(p: &[usize]) -> JOpts {
    JOpts { array_fmt: p[0] == 1, explicit_nulls: p[1] == 1, list_mode: p[2] == 1, coerce: p[3] == 1, strict: p[4] == 1, batch: BATCHES[p[5]], layout: p[6] as u8, fmt: p[7] as u8, names: p[8] as u8, nullable: p[9] == 0, strty: p[10] as u8 }
}
fn opts_to_point(o: &JOpts) -> Vec<usize> {
    vec![o.array_fmt as usize, o.explicit_nulls as usize, o.list_mode as usize, o.coerce as usize, o.strict as usize, BATCHES.iter().position(|b| *b == o.batch).unwrap(), o.layout as usize, o.fmt as usize, o.names as usize, !o.nullable as usize, o.strty as usize]
}
/// key names only exist in object mode
pub fn valid_point(o: &JOpts) -> bool {
    !(o.list_mode && o.names != 0)
}

pub fn field_names(o: &JOpts, n: usize) -> Vec<String> {
    let meta = ["k\"q", "\u{1}\\é😀", ""];
    (0..n).map(|i| if o.names == 0 { format!("c{i}") } else { meta[i % 3].to_string() }).collect()
}

// ---------------------------------------------------------------------------------------------
// alphabets

pub const JCHARS: [char; 20] = ['a', '"', '\\', '/', '\n', '\r', '\t', '\u{8}', '\u{c}', '\u{0}', '\u{1f}', '\u{7f}', '\u{80}', 'é', '\u{2028}', '😀', ' ', '\u{feff}', '\u{ffff}', '𝄞'];

pub fn jstrings_a1() -> Vec<String> {
    let mut v: Vec<String> = vec!["".into()];
    v.extend(JCHARS.iter().map(|c| c.to_string()));
    v.extend(["null", "true", "1", "-0", "1e5", "0.10", "{}", "[1]"].iter().map(|s| s.to_string()));
    v
}
pub fn jstrings_a0() -> Vec<String> {
    ["", "a", "\"", "\\", "\n", "😀", "\u{0}", "null"].iter().map(|s| s.to_string()).collect()
}
pub fn jstrings_full() -> Vec<String> {
    let mut v = jstrings_a1();
    for a in JCHARS {
        for b in JCHARS {
            v.push(format!("{a}{b}"));
        }
    }
    v
}

fn str_type(o: &JOpts) -> DataType {
    match o.strty {
        0 => DataType::Utf8,
        1 => DataType::LargeUtf8,
        _ => DataType::Utf8View,
    }
}

fn map_of(v: DataType, value_nullable: bool) -> DataType {
    DataType::Map(field("entries", struct_of(vec![field("keys", DataType::Utf8, false), field("values", v, value_nullable)]), false), false)
}

/// JSON type grid: what both arrow-json writer and reader support
pub fn scalar_grid() -> Vec<DataType> {
    use DataType::*;
    vec![
        Boolean,
        Int8,
        Int16,
        Int32,
        Int64,
        UInt8,
        UInt16,
        UInt32,
        UInt64,
        Float16,
        Float32,
        Float64,
        Decimal32(5, 2),
        Decimal64(18, 4),
        Decimal128(38, 0),
        Decimal128(38, 38),
        Decimal128(10, 2),
        Decimal256(76, 0),
        Decimal256(76, 38),
        Date32,
        Date64,
        Time32(TimeUnit::Second),
        Time32(TimeUnit::Millisecond),
        Time64(TimeUnit::Microsecond),
        Time64(TimeUnit::Nanosecond),
        Timestamp(TimeUnit::Second, None),
        Timestamp(TimeUnit::Millisecond, None),
        Timestamp(TimeUnit::Microsecond, None),
        Timestamp(TimeUnit::Nanosecond, None),
        Timestamp(TimeUnit::Second, tz("+05:30")),
        Timestamp(TimeUnit::Millisecond, tz("-08:00")),
        Timestamp(TimeUnit::Microsecond, tz("+00:00")),
        Timestamp(TimeUnit::Nanosecond, tz("+05:30")),
        Binary,
        LargeBinary,
        BinaryView,
        FixedSizeBinary(3),
        Null,
        Duration(TimeUnit::Second),
        Duration(TimeUnit::Millisecond),
        Duration(TimeUnit::Microsecond),
        Duration(TimeUnit::Nanosecond),
        Decimal128(10, -2),
    ]
}

pub fn nested_grid() -> Vec<DataType> {
    use DataType::*;
    let i32n = || field("item", Int32, true);
    vec![
        List(i32n()),
        List(field("item", Utf8, true)),
        List(field("item", Int32, false)),
        LargeList(field("item", Float64, true)),
        ListView(i32n()),
        LargeListView(field("item", Utf8, true)),
        FixedSizeList(i32n(), 2),
        struct_of(vec![field("a", Int32, true), field("b", Utf8, true)]),
        struct_of(vec![field("a", Int32, false), field("b", Boolean, true)]),
        map_of(Int32, true),
        map_of(Utf8, true),
        List(field("item", List(i32n()), true)),
        List(field("item", struct_of(vec![field("a", Int32, true)]), true)),
        struct_of(vec![field("l", List(field("item", Utf8, true)), true), field("s", struct_of(vec![field("x", Boolean, true)]), true)]),
        map_of(List(i32n()), true),
        RunEndEncoded(field("run_ends", Int32, false), field("values", Int32, true)),
        RunEndEncoded(field("run_ends", Int16, false), field("values", Utf8, true)),
        List(field("item", Timestamp(TimeUnit::Millisecond, None), true)),
        struct_of(vec![field("d", Decimal128(10, 2), true), field("t", Date32, true)]),
    ]
}

/// non-null value alphabet for a JSON column type at an option point
pub fn jalphabet(dt: &DataType, o: &JOpts) -> Vec<V> {
    use DataType::*;
    let with_null = |f: &arrow_schema::FieldRef| -> Vec<V> {
        let mut a = jalphabet(f.data_type(), o);
        if f.is_nullable() {
            a.push(V::Null);
        }
        a
    };
    match dt {
        Float16 | Float32 | Float64 => scalar_alphabet(dt)
            .into_iter()
            .filter(|v| match v {
                V::F64(b) => f64::from_bits(*b).is_finite(),
                V::F32(b) => f32::from_bits(*b).is_finite(),
                V::F16(b) => half::f16::from_bits(*b).is_finite(),
                _ => true,
            })
            .collect(),
        Utf8 | LargeUtf8 | Utf8View => jstrings_a1().into_iter().map(V::S).collect(),
        Binary | LargeBinary | BinaryView => vec![V::B(vec![]), V::B(vec![0]), V::B(vec![0xff]), V::B(vec![0x0a, 0xb0]), V::B(b"\"\\".to_vec())],
        FixedSizeBinary(n) => vec![V::B(vec![0; *n as usize]), V::B(vec![0xff; *n as usize]), V::B((0..*n as usize).map(|i| (0x1f + i * 0x60) as u8).collect())],
        Duration(_) => vec![V::I(0), V::I(1), V::I(-1), V::I(1_000_000_007)],
        List(f) | LargeList(f) | ListView(f) | LargeListView(f) => {
            let a = with_null(f);
            let n = a.len();
            let mut v = vec![V::L(vec![]), V::L(vec![a[0].clone()]), V::L(vec![a[n - 1].clone(), a[0].clone()]), V::L(vec![a[1 % n].clone(), a[2 % n].clone(), a[n - 1].clone()])];
            for x in a.iter().skip(3) {
                v.push(V::L(vec![x.clone()]));
            }
            v
        }
        FixedSizeList(f, k) => {
            let a = with_null(f);
            let n = a.len();
            (0..n).map(|i| V::L((0..*k as usize).map(|j| a[(i + j * 2) % n].clone()).collect())).collect()
        }
        Struct(fs) => {
            let alphas: Vec<Vec<V>> = fs.iter().map(with_null).collect();
            let n = alphas.iter().map(|a| a.len()).max().unwrap_or(1);
            let mut v: Vec<V> = (0..n).map(|i| V::St(alphas.iter().enumerate().map(|(j, a)| a[(i + j) % a.len()].clone()).collect())).collect();
            // all fields null where allowed
            v.push(V::St(fs.iter().zip(&alphas).map(|(f, a)| if f.is_nullable() { V::Null } else { a[0].clone() }).collect()));
            v
        }
        Map(entries, _) => {
            let DataType::Struct(kv) = entries.data_type() else { unreachable!() };
            let mut vals = jalphabet(kv[1].data_type(), o);
            // a null map value is only representable with explicit nulls (the writer documents that
            // null-valued keys are omitted otherwise): construct it only there
            if kv[1].is_nullable() && o.explicit_nulls {
                vals.push(V::Null);
            }
            let n = vals.len();
            let keys = ["k", "", "a\"b", "é😀", "\n"];
            let mut v = vec![V::M(vec![])];
            for i in 0..n {
                v.push(V::M(vec![(V::s(keys[i % keys.len()]), vals[i].clone())]));
            }
            v.push(V::M(vec![(V::s("k"), vals[n - 1].clone()), (V::s(""), vals[0].clone()), (V::s("z"), vals[1 % n].clone())]));
            v
        }
        RunEndEncoded(_, vf) => jalphabet(vf.data_type(), o).into_iter().take(6).collect(),
        Null => vec![],
        other => scalar_alphabet(other),
    }
}

// ---------------------------------------------------------------------------------------------

#[derive(Clone, Debug)]
pub struct Case {
    pub opts: JOpts,
    /// string columns are given as Utf8; `opts.strty` picks the flavour
    pub types: Vec<DataType>,
    pub cols: Vec<Vec<V>>,
}

#[derive(Debug)]
pub struct Fail {
    pub stage: &'static str,
    pub col: Option<usize>,
    pub msg: String,
}

fn phys_type(dt: &DataType, o: &JOpts) -> DataType {
    match dt {
        DataType::Utf8 => str_type(o),
        other => other.clone(),
    }
}

fn col_nullable(dt: &DataType, o: &JOpts) -> bool {
    o.nullable || *dt == DataType::Null || matches!(dt, DataType::RunEndEncoded(..))
}

fn norm(v: &V) -> V {
    v.clone()
}

fn hex(b: &[u8]) -> String {
    b.iter().map(|x| format!("{x:02x}")).collect()
}

/// independent check of one JSON value against the model
fn check_value(dt: &DataType, v: &V, j: &J, o: &JOpts) -> Result<(), String> {
    use DataType::*;
    if v.is_null() {
        return if *j == J::Null { Ok(()) } else { Err(format!("expected null, text has {j:?}")) };
    }
    let bad = || Err(format!("{} value {} written as {j:?}", dt, v.show()));
    match dt {
        Boolean => match (v, j) {
            (V::Bool(a), J::Bool(b)) if a == b => Ok(()),
            _ => bad(),
        },
        Int8 | Int16 | Int32 | Int64 | UInt8 | UInt16 | UInt32 | UInt64 => match (v, j) {
            (V::I(a), J::Num(raw)) if raw.parse::<i128>().ok() == Some(*a) => Ok(()),
            _ => bad(),
        },
        Float64 => match (v, j) {
            (V::F64(a), J::Num(raw)) if raw.parse::<f64>().map(|x| x.to_bits()).ok() == Some(*a) => Ok(()),
            _ => bad(),
        },
        Float32 => match (v, j) {
            (V::F32(a), J::Num(raw)) if raw.parse::<f32>().map(|x| x.to_bits()).ok() == Some(*a) => Ok(()),
            _ => bad(),
        },
        Float16 => match (v, j) {
            (V::F16(a), J::Num(raw)) if raw.parse::<f32>().map(|x| half::f16::from_f32(x).to_bits()).ok() == Some(*a) => Ok(()),
            _ => bad(),
        },
        Decimal32(_, s) | Decimal64(_, s) | Decimal128(_, s) | Decimal256(_, s) => match (v, j) {
            (V::Dec(a), J::Num(raw)) | (V::Dec(a), J::Str(raw)) if parse_decimal_text(raw, *s) == Some(*a) => Ok(()),
            _ => bad(),
        },
        Utf8 | LargeUtf8 | Utf8View => match (v, j) {
            (V::S(a), J::Str(b)) if a == b => Ok(()),
            _ => bad(),
        },
        Binary | LargeBinary | BinaryView | FixedSizeBinary(_) => match (v, j) {
            (V::B(a), J::Str(b)) if hex(a) == *b => Ok(()),
            _ => bad(),
        },
        Date32 | Date64 | Time32(_) | Time64(_) | Timestamp(..) => match j {
            J::Str(text) if decode_text(dt, text).as_ref() == Some(v) => Ok(()),
            _ => bad(),
        },
        Duration(_) => Ok(()), // no independent decoder for ISO 8601 durations; only the round trip is checked
        List(f) | LargeList(f) | ListView(f) | LargeListView(f) | FixedSizeList(f, _) => match (v, j) {
            (V::L(items), J::Arr(js)) if items.len() == js.len() => {
                for (x, y) in items.iter().zip(js) {
                    check_value(f.data_type(), x, y, o)?;
                }
                Ok(())
            }
            _ => bad(),
        },
        Struct(fs) => match v {
            V::St(items) => check_struct(fs, items, j, o),
            _ => bad(),
        },
        Map(entries, _) => {
            let DataType::Struct(kv) = entries.data_type() else { unreachable!() };
            match (v, j) {
                (V::M(items), J::Obj(js)) if items.len() == js.len() => {
                    for ((k, x), (jk, jv)) in items.iter().zip(js) {
                        if *k != V::s(jk) {
                            return bad();
                        }
                        check_value(kv[1].data_type(), x, jv, o)?;
                    }
                    Ok(())
                }
                _ => bad(),
            }
        }
        RunEndEncoded(_, vf) => check_value(vf.data_type(), v, j, o),
        Dictionary(_, vt) => check_value(vt, v, j, o),
        _ => Err(format!("harness: no JSON check for {dt}")),
    }
}

fn check_struct(fs: &Fields, items: &[V], j: &J, o: &JOpts) -> Result<(), String> {
    if o.list_mode {
        let J::Arr(js) = j else { return Err(format!("struct written as {j:?} in ListOnly mode")) };
        if js.len() != fs.len() {
            return Err(format!("struct list has {} entries for {} fields", js.len(), fs.len()));
        }
        for ((f, x), y) in fs.iter().zip(items).zip(js) {
            check_value(f.data_type(), x, y, o)?;
        }
        return Ok(());
    }
    let J::Obj(kvs) = j else { return Err(format!("struct written as {j:?} in ObjectOnly mode")) };
    let mut used = 0;
    for (f, x) in fs.iter().zip(items) {
        let hits: Vec<&J> = kvs.iter().filter(|(k, _)| k == f.name()).map(|(_, v)| v).collect();
        match hits.len() {
            0 => {
                if !x.is_null() {
                    return Err(format!("key {:?} missing although the value {} is not null", f.name(), x.show()));
                }
                if o.explicit_nulls {
                    return Err(format!("key {:?} omitted although explicit_nulls is set", f.name()));
                }
            }
            1 => {
                used += 1;
                check_value(f.data_type(), x, hits[0], o)?;
            }
            _ => return Err(format!("key {:?} written twice", f.name())),
        }
    }
    if used != kvs.len() {
        return Err(format!("object has {} keys, {} belong to the schema", kvs.len(), used));
    }
    Ok(())
}

pub fn run_case(c: &Case) -> Result<String, Fail> {
    let o = &c.opts;
    let ncols = c.types.len();
    let nrows = c.cols.first().map(|x| x.len()).unwrap_or(0);
    let names = field_names(o, ncols);
    let fields: Vec<Field> = (0..ncols).map(|i| Field::new(&names[i], phys_type(&c.types[i], o), col_nullable(&c.types[i], o))).collect();
    let schema = Arc::new(Schema::new(fields));
    let arrays: Vec<ArrayRef> = (0..ncols)
        .map(|i| {
            let dt = phys_type(&c.types[i], o);
            match o.layout {
                0 => build(&dt, &c.cols[i]),
                l => {
                    let pad = match &c.types[i] {
                        DataType::Null => V::Null,
                        t => jalphabet(t, o).last().cloned().unwrap_or(V::Null),
                    };
                    build_sliced(&dt, &c.cols[i], &pad, if l == 1 { 1 } else { 9 })
                }
            }
        })
        .collect();
    let batch = RecordBatch::try_new_with_options(schema.clone(), arrays, &arrow_array::RecordBatchOptions::new().with_row_count(Some(nrows))).map_err(|e| Fail { stage: "harness", col: None, msg: format!("batch: {e}") })?;

    // ---- write
    let mut bytes: Vec<u8> = vec![];
    let wr = catch(|| -> Result<(), arrow_schema::ArrowError> {
        let mut b = WriterBuilder::new().with_explicit_nulls(o.explicit_nulls).with_struct_mode(if o.list_mode { StructMode::ListOnly } else { StructMode::ObjectOnly });
        if o.fmt == 1 {
            b = b
                .with_date_format("%Y-%m-%d".into())
                .with_datetime_format("%Y-%m-%d %H:%M:%S%.3f".into())
                .with_timestamp_format("%Y-%m-%d %H:%M:%S%.9f".into())
                .with_timestamp_tz_format("%Y-%m-%d %H:%M:%S%.9f %:z".into())
                .with_time_format("%H:%M:%S%.9f".into());
        }
        if o.array_fmt {
            let mut w = b.build::<_, JsonArray>(&mut bytes);
            w.write(&batch)?;
            w.finish()
        } else {
            let mut w = b.build::<_, LineDelimited>(&mut bytes);
            w.write(&batch)?;
            w.finish()
        }
    });
    match wr {
        Err(p) => return Err(Fail { stage: "write-panic", col: None, msg: format!("{} ({}:{})", p.fingerprint(), p.file, p.line) }),
        Ok(Err(e)) => return Err(Fail { stage: "write-error", col: None, msg: e.to_string() }),
        Ok(Ok(())) => {}
    }
    let text = || String::from_utf8_lossy(&bytes).to_string();
    let expect: Vec<Vec<V>> = c.cols.iter().map(|col| col.iter().map(norm).collect()).collect();

    // ---- (ii) independent parsers
    let mine: Vec<J> = if o.array_fmt {
        match jsonp::parse(&bytes) {
            Ok(J::Arr(items)) => items,
            Ok(other) => return Err(Fail { stage: "text-invalid", col: None, msg: format!("array writer produced a non-array {other:?}") }),
            Err(e) => return Err(Fail { stage: "text-invalid", col: None, msg: format!("RFC 8259 parser rejects the written text: {e:?}; text={:?}", text()) }),
        }
    } else {
        match jsonp::parse_seq(&bytes) {
            Ok(v) => v,
            Err(e) => return Err(Fail { stage: "text-invalid", col: None, msg: format!("RFC 8259 parser rejects the written text: {e:?}; text={:?}", text()) }),
        }
    };
    let serde: Result<Vec<serde_json::Value>, serde_json::Error> = if o.array_fmt { serde_json::from_slice::<Vec<serde_json::Value>>(&bytes) } else { serde_json::Deserializer::from_slice(&bytes).into_iter::<serde_json::Value>().collect() };
    let serde = serde.map_err(|e| Fail { stage: "text-invalid", col: None, msg: format!("serde_json rejects the written text: {e}; text={:?}", text()) })?;
    if serde.len() != mine.len() || !mine.iter().zip(&serde).all(|(a, b)| jsonp::agrees_with_serde(a, b)) {
        return Err(Fail { stage: "harness", col: None, msg: format!("own parser and serde_json disagree on {:?}", text()) });
    }
    if !o.array_fmt && nrows > 0 && bytes.iter().filter(|b| **b == b'\n').count() != nrows {
        return Err(Fail { stage: "text-lines", col: None, msg: format!("line-delimited output of {nrows} rows has {} line breaks: {:?}", bytes.iter().filter(|b| **b == b'\n').count(), text()) });
    }
    if mine.len() != nrows {
        return Err(Fail { stage: "text-row-count", col: None, msg: format!("text has {} rows, wrote {nrows}: {:?}", mine.len(), text()) });
    }
    let fs: Fields = schema.fields().clone();
    let logical_fs: Fields = Fields::from((0..ncols).map(|i| Field::new(&names[i], c.types[i].clone(), true)).collect::<Vec<_>>());
    let _ = fs;
    for (r, j) in mine.iter().enumerate() {
        let items: Vec<V> = (0..ncols).map(|i| expect[i][r].clone()).collect();
        if let Err(e) = check_struct(&logical_fs, &items, j, o) {
            return Err(Fail { stage: "text-value", col: None, msg: format!("row {r}: {e}; text={:?}", text()) });
        }
    }

    // ---- (i) read back
    let rd = catch(|| -> Result<Vec<RecordBatch>, arrow_schema::ArrowError> {
        let r = ReaderBuilder::new(schema.clone())
            .with_batch_size(o.batch)
            .with_coerce_primitive(o.coerce)
            .with_strict_mode(o.strict)
            .with_struct_mode(if o.list_mode { StructMode::ListOnly } else { StructMode::ObjectOnly })
            .with_flatten(o.array_fmt)
            .build(std::io::Cursor::new(&bytes))?;
        r.collect()
    });
    let batches = match rd {
        Err(p) => return Err(Fail { stage: "read-panic", col: None, msg: format!("{} ({}:{}); text={:?}", p.fingerprint(), p.file, p.line, text()) }),
        Ok(Err(e)) => return Err(Fail { stage: "read-error", col: None, msg: format!("{e}; text={:?}", text()) }),
        Ok(Ok(b)) => b,
    };
    let mut got: Vec<Vec<V>> = vec![vec![]; ncols];
    let mut total = 0;
    for b in &batches {
        if b.schema() != schema {
            return Err(Fail { stage: "read-schema", col: None, msg: format!("schema {:?} != {:?}", b.schema(), schema) });
        }
        if b.num_rows() > o.batch || b.num_rows() == 0 {
            return Err(Fail { stage: "read-batch-size", col: None, msg: format!("batch of {} rows with batch_size {}", b.num_rows(), o.batch) });
        }
        total += b.num_rows();
        for (i, col) in b.columns().iter().enumerate() {
            if let Err(e) = col.to_data().validate_full() {
                return Err(Fail { stage: "wf", col: Some(i), msg: format!("validate_full: {e}") });
            }
            got[i].extend(extract(col.as_ref()).iter().map(norm));
        }
    }
    if total != nrows {
        return Err(Fail { stage: "read-row-count", col: None, msg: format!("read {total} rows, wrote {nrows}; text={:?}", text()) });
    }
    for i in 0..ncols {
        if got[i] != expect[i] {
            return Err(Fail { stage: "read-value", col: Some(i), msg: format!("column {i} ({}) read back as {} expected {}; text={:?}", c.types[i], show_col(&got[i]), show_col(&expect[i]), text()) });
        }
    }
    let escapes = bytes.contains(&b'\\');
    let nulls = bytes.windows(4).any(|w| w == b"null");
    Ok(format!("json-rt:ok:escapes={}:null-literal={}:batches={}", escapes as u8, nulls as u8, batches.len().min(3)))
}

// ---------------------------------------------------------------------------------------------
// blocks

#[derive(Clone)]
pub enum Mode {
    Product,
    Rotation(u64),
}

#[derive(Clone)]
pub struct Block {
    pub family: &'static str,
    pub opts: JOpts,
    pub types: Vec<DataType>,
    pub rows: usize,
    pub alpha: Vec<Arc<Vec<V>>>,
    pub mode: Mode,
}

impl Block {
    pub fn size(&self) -> u64 {
        match self.mode {
            Mode::Product => self.alpha.iter().map(|a| (a.len() as u64).pow(self.rows as u32)).product(),
            Mode::Rotation(n) => n,
        }
    }
    pub fn case(&self, local: u64) -> Case {
        let ncols = self.types.len();
        let mut cols: Vec<Vec<V>> = vec![vec![]; ncols];
        match self.mode {
            Mode::Product => {
                let mut i = local;
                for _ in 0..self.rows {
                    for c in 0..ncols {
                        let n = self.alpha[c].len() as u64;
                        cols[c].push(self.alpha[c][(i % n) as usize].clone());
                        i /= n;
                    }
                }
            }
            Mode::Rotation(_) => {
                for c in 0..ncols {
                    let n = self.alpha[c].len();
                    for r in 0..self.rows {
                        cols[c].push(self.alpha[c][(local as usize + r * (c + 1) + c) % n].clone());
                    }
                }
            }
        }
        Case { opts: self.opts.clone(), types: self.types.clone(), cols }
    }
}

fn col_alpha(dt: &DataType, o: &JOpts, strings: Option<&[String]>) -> Vec<V> {
    let mut a: Vec<V> = match (dt, strings) {
        (DataType::Utf8, Some(s)) => s.iter().cloned().map(V::S).collect(),
        _ => jalphabet(dt, o),
    };
    if col_nullable(dt, o) {
        a.push(V::Null);
    }
    a
}

/// long JSON strings: plain, multi-byte characters straddling the boundary, characters that need
/// escapes at the boundary, strings made only of escaped characters
pub fn long_json_strings(thorough: bool) -> Vec<String> {
    let mut v = vec![];
    for l in long_lengths(thorough) {
        v.push(ascii_ramp(l));
        v.push(straddle(l, "é", 1));
        v.push(straddle(l, "😀", 2));
        v.push(straddle(l, "\"", 1));
        v.push(straddle(l, "\\", 1));
        v.push(straddle(l, "\"\\\n\u{1}", 2));
        v.push(straddle(l, "\u{2028}", 1));
        v.push("\"".repeat(l));
        v.push("\u{1}".repeat(l / 6 + 1));
        v.push("é".repeat(l / 2) + if l % 2 == 1 { "a" } else { "" });
    }
    v
}

pub fn build_blocks(ctx: &Ctx) -> Vec<Block> {
    let thorough = !ctx.quick();
    let mut blocks: Vec<Block> = vec![];

    // ---- long values (strings, binaries, lists): default option point and every 1-deviation point
    {
        let lens = long_lengths(thorough);
        let long_s = long_json_strings(thorough);
        let bins: Vec<V> = lens.iter().flat_map(|l| [V::B(bytes_ramp(*l)), V::B(bytes_ff00(*l))]).collect();
        for p in dev_points(&DIM_SIZES, 1) {
            let o = opts_from_point(&p);
            if !valid_point(&o) || o.fmt == 1 {
                continue;
            }
            let with_null = |mut a: Vec<V>| {
                if o.nullable {
                    a.push(V::Null);
                }
                Arc::new(a)
            };
            let short = with_null(jstrings_a0().into_iter().map(V::S).collect());
            let mut push = |family: &'static str, dt: DataType, alpha: Arc<Vec<V>>| {
                let n = alpha.len() as u64;
                blocks.push(Block { family, opts: o.clone(), types: vec![dt.clone()], rows: 1, alpha: vec![alpha.clone()], mode: Mode::Product });
                blocks.push(Block { family, opts: o.clone(), types: vec![dt.clone()], rows: 3, alpha: vec![alpha.clone()], mode: Mode::Rotation(n) });
                blocks.push(Block { family, opts: o.clone(), types: vec![DataType::Utf8, dt.clone()], rows: 2, alpha: vec![short.clone(), alpha.clone()], mode: Mode::Rotation(n) });
            };
            push("long-string", DataType::Utf8, with_null(long_s.iter().cloned().map(V::S).collect()));
            if o.strty == 0 {
                for dt in [DataType::Binary, DataType::LargeBinary, DataType::BinaryView] {
                    push("long-binary", dt, with_null(bins.clone()));
                }
                for l in &lens {
                    push("long-binary", DataType::FixedSizeBinary(*l as i32), with_null(vec![V::B(bytes_ramp(*l)), V::B(bytes_ff00(*l)), V::B(vec![0xab; *l])]));
                }
                // long lists / maps (many elements) and a long string inside a nested value
                let lists: Vec<V> = lens.iter().filter(|l| **l <= 1025).map(|l| V::L((0..*l).map(|i| if i % 7 == 3 { V::Null } else { V::I(i as i128 - 5) }).collect())).collect();
                push("long-list", DataType::List(field("item", DataType::Int32, true)), with_null(lists));
                let nested: Vec<V> = long_s.iter().step_by(3).map(|s| V::St(vec![V::I(1), V::S(s.clone())])).collect();
                push("long-nested", struct_of(vec![field("a", DataType::Int32, true), field("b", DataType::Utf8, true)]), with_null(nested));
                let maps: Vec<V> = long_s.iter().step_by(5).map(|s| V::M(vec![(V::S(s.clone()), V::S(s.clone()))])).collect();
                push("long-nested", map_of(DataType::Utf8, true), with_null(maps));
            }
        }
    }
    let (a0, a1, full) = (jstrings_a0(), jstrings_a1(), jstrings_full());
    let utf = DataType::Utf8;

    // ---- strings
    let mut sizes = DIM_SIZES;
    sizes[7] = 1; // formats: no-op for strings
    for p in dev_points(&sizes, ctx.pick(2, 3)) {
        let o = opts_from_point(&p);
        if !valid_point(&o) {
            continue;
        }
        let ndev = p.iter().filter(|x| **x != 0).count();
        let al = |s: &[String]| Arc::new(col_alpha(&utf, &o, Some(s)));
        let (f, m, s) = (al(&full), al(&a1), al(&a0));
        let mut push = |family: &'static str, rows: usize, alpha: Vec<Arc<Vec<V>>>| {
            blocks.push(Block { family, opts: o.clone(), types: vec![utf.clone(); alpha.len()], rows, alpha, mode: Mode::Product });
        };
        push("str-1x1", 1, vec![f.clone()]);
        push("str-0rows", 0, vec![s.clone(), s.clone()]);
        if thorough {
            match ndev {
                0 | 1 => {
                    push("str-1x2", 1, vec![f.clone(), f.clone()]);
                    push("str-2x1", 2, vec![f.clone()]);
                }
                2 => {
                    push("str-1x2", 1, vec![f.clone(), m.clone()]);
                    push("str-1x2", 1, vec![m.clone(), f.clone()]);
                    push("str-2x1", 2, vec![m.clone()]);
                }
                _ => {
                    push("str-1x2", 1, vec![m.clone(), m.clone()]);
                    push("str-2x1", 2, vec![m.clone()]);
                }
            }
            if ndev <= 2 {
                push("str-3x1", 3, vec![m.clone()]);
                push("str-1x3", 1, vec![m.clone(), m.clone(), m.clone()]);
            } else {
                push("str-3x1", 3, vec![s.clone()]);
                push("str-1x3", 1, vec![s.clone(), s.clone(), s.clone()]);
            }
        } else {
            push("str-1x2", 1, vec![f.clone(), m.clone()]);
            push("str-1x2", 1, vec![m.clone(), f.clone()]);
            push("str-2x1", 2, vec![m.clone()]);
            push("str-3x1", 3, vec![s.clone()]);
            push("str-1x3", 1, vec![s.clone(), s.clone(), s.clone()]);
        }
        push("str-2x2", 2, vec![s.clone(), s.clone()]);
    }

    // ---- typed single columns (scalars and nested)
    let sizes = {
        let mut s = DIM_SIZES;
        s[10] = 1; // string flavour: only the string families
        s
    };
    let mut grid = scalar_grid();
    grid.extend(nested_grid());
    let core: Vec<DataType> = {
        use DataType::*;
        vec![Boolean, Int64, Float64, Decimal128(10, 2), Timestamp(TimeUnit::Nanosecond, tz("+05:30")), Utf8, DataType::List(field("item", Int32, true)), struct_of(vec![field("a", Int32, true), field("b", Utf8, true)]), map_of(Int32, true)]
    };
    let max_rows = ctx.pick(2, 3);
    for p in dev_points(&sizes, ctx.pick(3, 4)) {
        let o = opts_from_point(&p);
        if !valid_point(&o) {
            continue;
        }
        for dt in &grid {
            if o.fmt == 1 && !contains_temporal(dt) {
                continue;
            }
            let alpha = Arc::new(col_alpha(dt, &o, None));
            if alpha.is_empty() {
                continue;
            }
            let ndev = p.iter().filter(|x| **x != 0).count();
            for rows in 0..=max_rows {
                if rows > 2 && (alpha.len() > 12 || ndev > 2) {
                    continue;
                }
                blocks.push(Block { family: if dt.is_nested() { "nested-1col" } else { "typed-1col" }, opts: o.clone(), types: vec![dt.clone()], rows, alpha: vec![alpha.clone()], mode: Mode::Product });
            }
        }
        let calpha: Vec<Arc<Vec<V>>> = core.iter().map(|dt| Arc::new(col_alpha(dt, &o, None))).collect();
        for (i, t1) in core.iter().enumerate() {
            for (j, t2) in core.iter().enumerate() {
                for (k, t3) in core.iter().enumerate() {
                    let alpha = vec![calpha[i].clone(), calpha[j].clone(), calpha[k].clone()];
                    let n = alpha.iter().map(|a| a.len()).max().unwrap() as u64;
                    blocks.push(Block { family: "mixed-3col", opts: o.clone(), types: vec![t1.clone(), t2.clone(), t3.clone()], rows: 3, alpha, mode: Mode::Rotation(ctx.pick(n.min(4), n.min(10))) });
                }
            }
        }
    }
    blocks
}

fn contains_temporal(dt: &DataType) -> bool {
    match dt {
        DataType::List(f) | DataType::LargeList(f) | DataType::ListView(f) | DataType::LargeListView(f) | DataType::FixedSizeList(f, _) => contains_temporal(f.data_type()),
        DataType::Struct(fs) => fs.iter().any(|f| contains_temporal(f.data_type())),
        DataType::Map(e, _) => contains_temporal(e.data_type()),
        DataType::RunEndEncoded(_, v) => contains_temporal(v.data_type()),
        d => d.is_temporal(),
    }
}

// ---------------------------------------------------------------------------------------------
// shrinking / fingerprints

fn type_class(dt: &DataType) -> String {
    match dt {
        DataType::Timestamp(u, z) => format!("Timestamp({u:?},{})", if z.is_some() { "tz" } else { "none" }),
        DataType::Decimal32(..) => "Decimal32".into(),
        DataType::Decimal64(..) => "Decimal64".into(),
        DataType::Decimal128(..) => "Decimal128".into(),
        DataType::Decimal256(..) => "Decimal256".into(),
        DataType::List(f) => format!("List<{}>", type_class(f.data_type())),
        DataType::LargeList(f) => format!("LargeList<{}>", type_class(f.data_type())),
        DataType::ListView(f) => format!("ListView<{}>", type_class(f.data_type())),
        DataType::LargeListView(f) => format!("LargeListView<{}>", type_class(f.data_type())),
        DataType::FixedSizeList(f, n) => format!("FixedSizeList<{},{n}>", type_class(f.data_type())),
        DataType::Struct(fs) => format!("Struct<{}>", fs.iter().map(|f| type_class(f.data_type())).collect::<Vec<_>>().join(",")),
        DataType::Map(e, _) => format!("Map<{}>", type_class(e.data_type())),
        DataType::RunEndEncoded(r, v) => format!("REE<{},{}>", r.data_type(), type_class(v.data_type())),
        DataType::FixedSizeBinary(_) => "FixedSizeBinary".into(),
        o => format!("{o}"),
    }
}

fn in_space(c: &Case) -> bool {
    if !valid_point(&c.opts) {
        return false;
    }
    fn has_map_null(dt: &DataType, v: &V) -> bool {
        match (dt, v) {
            (DataType::Map(e, _), V::M(items)) => {
                let DataType::Struct(kv) = e.data_type() else { return false };
                items.iter().any(|(_, x)| x.is_null() || has_map_null(kv[1].data_type(), x))
            }
            (DataType::List(f) | DataType::LargeList(f) | DataType::ListView(f) | DataType::LargeListView(f) | DataType::FixedSizeList(f, _), V::L(items)) => items.iter().any(|x| has_map_null(f.data_type(), x)),
            (DataType::Struct(fs), V::St(items)) => fs.iter().zip(items).any(|(f, x)| has_map_null(f.data_type(), x)),
            _ => false,
        }
    }
    for (i, col) in c.cols.iter().enumerate() {
        for v in col {
            if v.is_null() && !col_nullable(&c.types[i], &c.opts) {
                return false;
            }
            if !c.opts.explicit_nulls && has_map_null(&c.types[i], v) {
                return false;
            }
        }
    }
    true
}

pub fn shrink(c: &Case, stage: &'static str) -> (Case, Fail) {
    let fails = |c: &Case| -> Option<Fail> {
        if !in_space(c) {
            return None;
        }
        let _ = stage;
        match run_case(c) {
            Err(f) if f.stage != "harness" => Some(f),
            _ => None,
        }
    };
    let mut cur = c.clone();
    let Some(mut last) = fails(&cur) else {
        return (cur, Fail { stage: "nondeterministic", col: None, msg: "violation did not reproduce on re-execution".into() });
    };
    let mut changed = true;
    while changed {
        changed = false;
        let p = opts_to_point(&cur.opts);
        for d in 0..p.len() {
            if p[d] != 0 {
                let mut q = opts_to_point(&cur.opts);
                q[d] = 0;
                let mut t = cur.clone();
                t.opts = opts_from_point(&q);
                if let Some(f) = fails(&t) {
                    cur = t;
                    last = f;
                    changed = true;
                }
            }
        }
        let mut ci = 0;
        while cur.types.len() > 1 && ci < cur.types.len() {
            let mut t = cur.clone();
            t.types.remove(ci);
            t.cols.remove(ci);
            if let Some(f) = fails(&t) {
                cur = t;
                last = f;
                changed = true;
            } else {
                ci += 1;
            }
        }
        let mut ri = 0;
        while ri < cur.cols[0].len() {
            let mut t = cur.clone();
            for col in t.cols.iter_mut() {
                col.remove(ri);
            }
            if let Some(f) = fails(&t) {
                cur = t;
                last = f;
                changed = true;
            } else {
                ri += 1;
            }
        }
        for ci in 0..cur.types.len() {
            for ri in 0..cur.cols[ci].len() {
                if let V::S(s) = cur.cols[ci][ri].clone() {
                    let chars: Vec<char> = s.chars().collect();
                    let cands: Vec<String> = if chars.len() <= 8 {
                        (0..chars.len())
                            .map(|k| {
                                let mut cs = chars.clone();
                                cs.remove(k);
                                cs.into_iter().collect()
                            })
                            .collect()
                    } else {
                        let h = chars.len() / 2;
                        vec![chars[h..].iter().collect(), chars[..h].iter().collect(), chars[1..].iter().collect(), chars[..chars.len() - 1].iter().collect()]
                    };
                    for cand in cands {
                        let mut t = cur.clone();
                        t.cols[ci][ri] = V::S(cand);
                        if let Some(f) = fails(&t) {
                            cur = t;
                            last = f;
                            changed = true;
                            break;
                        }
                    }
                }
            }
        }
    }
    (cur, last)
}

fn char_tags(s: &str) -> String {
    let mut tags: Vec<&str> = vec![];
    for ch in s.chars() {
        let t = match ch {
            '"' => "QUOTE",
            '\\' => "BACKSLASH",
            '\u{0}'..='\u{1f}' => "CTRL",
            '\u{7f}'..='\u{9f}' => "C1",
            '\u{2028}' | '\u{2029}' => "LINESEP",
            c if (c as u32) > 0xffff => "NONBMP",
            c if !c.is_ascii() => "NONASCII",
            _ => "PLAIN",
        };
        if !tags.contains(&t) {
            tags.push(t);
        }
    }
    if s.is_empty() {
        tags.push("EMPTY");
    }
    tags.sort();
    tags.join("+")
}

fn neg_scale(dt: &DataType) -> bool {
    matches!(dt, DataType::Decimal32(_, s) | DataType::Decimal64(_, s) | DataType::Decimal128(_, s) | DataType::Decimal256(_, s) if *s < 0)
}

/// Triaged root causes (one semantic fingerprint each), decided on the case itself.
pub fn known_root_cause(c: &Case, f: &Fail) -> Option<&'static str> {
    if c.types.iter().any(|t| matches!(t, DataType::Duration(_))) {
        // the writer formats durations as ISO 8601 strings ("PT1S"), the reader only parses integers
        return Some("c17:json:duration-written-as-iso8601-string-that-the-reader-cannot-parse");
    }
    if c.types.iter().any(neg_scale) {
        return Some(if f.stage == "text-invalid" { "c17:decimal-negative-scale:zero-formatted-as-000" } else { "c17:decimal-negative-scale:parse_decimal-ignores-negative-scale" });
    }
    None
}

pub fn fingerprint(min: &Case, f: &Fail) -> String {
    if let Some(k) = known_root_cause(min, f) {
        return k.into();
    }
    let p = opts_to_point(&min.opts);
    let devs: Vec<String> = p.iter().enumerate().filter(|(_, v)| **v != 0).map(|(d, _)| DIM_NAMES[d].to_string()).collect();
    let group = if f.stage.starts_with("text-") {
        "written-text"
    } else if f.stage.starts_with("read-") {
        "read-back"
    } else {
        f.stage
    };
    let f = &Fail { stage: group, col: f.col, msg: String::new() };
    let col = f.col.unwrap_or(0).min(min.types.len().saturating_sub(1));
    let tclass = min.types.get(col).map(type_class).unwrap_or_default();
    let cell = match min.cols.get(col).and_then(|c| c.iter().find(|v| !v.is_null())) {
        Some(V::S(s)) => char_tags(s),
        Some(_) => "value".into(),
        None => "null-or-empty".into(),
    };
    format!("c17:json:{}:{}:opts[{}]:cell[{}]", f.stage, tclass, devs.join(","), cell)
}

pub fn case_json(sub: &str, idx: u64, tier: &str, c: &Case) -> Value {
    json!({
        "sub": sub, "idx": idx, "tier": tier,
        "options": format!("{:?}", c.opts),
        "types": c.types.iter().map(|t| t.to_string()).collect::<Vec<_>>(),
        "columns": c.cols.iter().map(|c| show_col(c)).collect::<Vec<_>>(),
    })
}

// ---------------------------------------------------------------------------------------------
// (iii) grammar documents

/// one generated document together with the schema that fits it and the expected column values
pub struct Doc {
    pub text: Vec<u8>,
    pub family: &'static str,
}

pub const NUM_CHARS: [u8; 9] = [b'0', b'1', b'5', b'9', b'-', b'+', b'.', b'e', b'E'];

pub fn string_tokens() -> Vec<&'static str> {
    vec![
        "a", "é", "😀", "/", "'", " ", "\u{7f}", "\u{1}", "\t", "\n", // raw characters (the last three are not allowed unescaped)
        "\\\"", "\\\\", "\\/", "\\b", "\\f", "\\n", "\\r", "\\t", // the eight simple escapes
        "\\a", "\\'", "\\0", "\\x41", "\\U0041", "\\u12", "\\u00G1", "\\", // not escapes
        "\\u0041", "\\u00e9", "\\u00E9", "\\u0000", "\\u001f", "\\uFFFF", "\\u2028", // BMP escapes
        "\\uD83D", "\\uDE00", "\\ud83d", "\\ude00", "\\uDBFF", "\\uDFFF", "\\uD800", // surrogate halves
        "\"",
    ]
}

pub const STRUCT_TOKENS: [&str; 11] = ["{", "}", "[", "]", ":", ",", "1", "\"a\"", "\"b\"", "null", "2.5"];

const WS: [&str; 13] = ["", " ", "\t", "\n", "\r", "\r\n", "  ", " \n\t", "\u{b}", "\u{c}", "\u{a0}", "\u{feff}", "\u{2028}"];
const WS_BASES: [&[&str]; 4] = [&["{", "\"a\"", ":", "1", "}"], &["{", "\"a\"", ":", "[", "1", ",", "2", "]", "}"], &["{", "\"a\"", ":", "{", "\"b\"", ":", "true", "}", "}"], &["{", "\"a\"", ":", "\"x\"", ",", "\"b\"", ":", "null", "}"]];

pub struct GSpace {
    pub n_num: u64,
    pub n_str: u64,
    pub n_ws: u64,
    pub n_struct: u64,
    pub num_len: u32,
    pub str_len: u32,
    pub struct_len: u32,
    pub ws_cases: Vec<(usize, Vec<(usize, usize)>)>,
}

fn geo(base: u64, maxlen: u32) -> u64 {
    (1..=maxlen).map(|k| base.pow(k)).sum()
}

pub fn gspace(ctx: &Ctx) -> GSpace {
    let num_len = ctx.pick(5, 6);
    let str_len = 3;
    let struct_len = ctx.pick(5, 6);
    // whitespace: per base document, all assignments with <= 2 non-empty gaps
    let mut ws_cases = vec![];
    for (bi, base) in WS_BASES.iter().enumerate() {
        let gaps = base.len() + 1;
        ws_cases.push((bi, vec![]));
        for g in 0..gaps {
            for w in 1..WS.len() {
                ws_cases.push((bi, vec![(g, w)]));
            }
        }
        for g1 in 0..gaps {
            for g2 in g1 + 1..gaps {
                for w1 in 1..WS.len() {
                    for w2 in 1..WS.len() {
                        ws_cases.push((bi, vec![(g1, w1), (g2, w2)]));
                    }
                }
            }
        }
    }
    GSpace {
        n_num: geo(NUM_CHARS.len() as u64, num_len) * 3,
        n_str: geo(string_tokens().len() as u64, str_len) * 2,
        n_ws: ws_cases.len() as u64,
        n_struct: geo(STRUCT_TOKENS.len() as u64, struct_len),
        num_len,
        str_len,
        struct_len,
        ws_cases,
    }
}

/// k-th sequence (shortest first) over an alphabet of size `base`
fn seq(mut k: u64, base: u64, maxlen: u32) -> Vec<usize> {
    let mut len = 1;
    while len <= maxlen && k >= base.pow(len) {
        k -= base.pow(len);
        len += 1;
    }
    (0..len)
        .map(|_| {
            let d = (k % base) as usize;
            k /= base;
            d
        })
        .collect()
}

/// what arrow-json returned for one document under one schema
pub enum Arrow {
    Rejected(String),
    Rows(Vec<Vec<V>>),
}

fn arrow_read(text: &[u8], schema: &Arc<Schema>, coerce: bool) -> Result<Arrow, Fail> {
    let rd = catch(|| -> Result<Vec<RecordBatch>, arrow_schema::ArrowError> {
        let r = ReaderBuilder::new(schema.clone()).with_coerce_primitive(coerce).build(std::io::Cursor::new(text))?;
        r.collect()
    });
    match rd {
        Err(p) => Err(Fail { stage: "grammar-read-panic", col: None, msg: format!("{} ({}:{}); text={:?}", p.fingerprint(), p.file, p.line, String::from_utf8_lossy(text)) }),
        Ok(Err(e)) => Ok(Arrow::Rejected(e.to_string())),
        Ok(Ok(batches)) => {
            let mut cols: Vec<Vec<V>> = vec![vec![]; schema.fields().len()];
            for b in &batches {
                for (i, col) in b.columns().iter().enumerate() {
                    if let Err(e) = col.to_data().validate_full() {
                        return Err(Fail { stage: "wf", col: Some(i), msg: format!("validate_full: {e}") });
                    }
                    cols[i].extend(extract(col.as_ref()));
                }
            }
            Ok(Arrow::Rows(cols))
        }
    }
}

/// fits an Arrow type to a JSON value (None: no schema can represent it, or an excluded class)
fn infer(j: &J) -> Option<DataType> {
    Some(match j {
        J::Null => DataType::Null,
        J::Bool(_) => DataType::Boolean,
        J::Num(raw) => {
            if raw.bytes().all(|b| b.is_ascii_digit() || b == b'-') {
                DataType::Int64
            } else {
                DataType::Float64
            }
        }
        J::Str(_) => DataType::Utf8,
        J::Arr(items) => {
            let mut t = DataType::Null;
            for i in items {
                t = unify(&t, &infer(i)?)?;
            }
            DataType::List(field("item", t, true))
        }
        J::Obj(kvs) => {
            let mut fs: Vec<arrow_schema::FieldRef> = vec![];
            for (k, v) in kvs {
                if fs.iter().any(|f| f.name() == k) {
                    return None; // duplicate key
                }
                fs.push(field(k, infer(v)?, true));
            }
            struct_of(fs)
        }
    })
}

fn unify(a: &DataType, b: &DataType) -> Option<DataType> {
    use DataType::*;
    Some(match (a, b) {
        (Null, x) | (x, Null) => x.clone(),
        (x, y) if x == y => x.clone(),
        (Int64, Float64) | (Float64, Int64) => Float64,
        (List(x), List(y)) => List(field("item", unify(x.data_type(), y.data_type())?, true)),
        (Struct(x), Struct(y)) => {
            let mut fs: Vec<arrow_schema::FieldRef> = vec![];
            for f in x.iter() {
                match y.iter().find(|g| g.name() == f.name()) {
                    Some(g) => fs.push(field(f.name(), unify(f.data_type(), g.data_type())?, true)),
                    None => fs.push(f.clone()),
                }
            }
            for g in y.iter() {
                if !x.iter().any(|f| f.name() == g.name()) {
                    fs.push(g.clone());
                }
            }
            struct_of(fs)
        }
        _ => return None,
    })
}

/// expected logical value of JSON value `j` read as type `dt` (None: outside the claimed class)
fn expected(dt: &DataType, j: &J) -> Option<V> {
    Some(match (dt, j) {
        (_, J::Null) => V::Null,
        (DataType::Null, _) => return None,
        (DataType::Boolean, J::Bool(b)) => V::Bool(*b),
        (DataType::Int64, J::Num(raw)) => V::I(raw.parse::<i64>().ok()? as i128),
        (DataType::Float64, J::Num(raw)) => {
            let f = raw.parse::<f64>().ok()?;
            if !f.is_finite() {
                return None;
            }
            V::F64(f.to_bits())
        }
        (DataType::Float32, J::Num(raw)) => {
            let f = raw.parse::<f32>().ok()?;
            if !f.is_finite() {
                return None;
            }
            V::F32(f.to_bits())
        }
        (DataType::Utf8, J::Str(s)) => V::s(s),
        (DataType::List(f), J::Arr(items)) => V::L(items.iter().map(|i| expected(f.data_type(), i)).collect::<Option<Vec<_>>>()?),
        (DataType::Struct(fs), J::Obj(kvs)) => V::St(
            fs.iter()
                .map(|f| match kvs.iter().find(|(k, _)| k == f.name()) {
                    Some((_, v)) => expected(f.data_type(), v),
                    None => Some(V::Null),
                })
                .collect::<Option<Vec<_>>>()?,
        ),
        _ => return None,
    })
}

/// Evaluates one document `text` (a full line `{...}`) against schema `[name: dt]`.
/// Returns the outcome class, or a failure when serde_json accepts and arrow-json rejects / differs.
fn eval_doc(text: &[u8], family: &'static str, schema_of: impl Fn(&J) -> Option<(Arc<Schema>, Vec<V>)>) -> Result<String, Fail> {
    let serde = serde_json::from_slice::<serde_json::Value>(text);
    let mine = jsonp::parse(text);
    match (&serde, &mine) {
        (Ok(s), Ok(m)) => {
            if !jsonp::agrees_with_serde(m, s) {
                return Err(Fail { stage: "harness", col: None, msg: format!("own parser and serde_json read {:?} differently", String::from_utf8_lossy(text)) });
            }
        }
        (Err(_), Err(_)) => {}
        (Err(e), Ok(J::Obj(_))) if e.to_string().contains("out of range") || e.to_string().contains("recursion") => {
            // serde_json limits: numbers beyond f64 range; RFC 8259 section 6/9 lets implementations set limits
            return Ok(format!("json-grammar:{family}:excluded:serde-limit"));
        }
        (Ok(_), Err(e)) => return Err(Fail { stage: "harness", col: None, msg: format!("serde_json accepts {:?} but the RFC 8259 parser of this crate rejects it: {e:?}", String::from_utf8_lossy(text)) }),
        (Err(e), Ok(_)) => return Err(Fail { stage: "harness", col: None, msg: format!("serde_json rejects {:?} ({e}) but the RFC 8259 parser of this crate accepts it", String::from_utf8_lossy(text)) }),
    }
    let mut line = text.to_vec();
    line.push(b'\n');
    match mine {
        Err(perr) => {
            // not an RFC 8259 document (or a lone surrogate escape): no claim; record what arrow-json does
            let class = match perr {
                PErr::LoneSurrogate => "lone-surrogate",
                PErr::Syntax(_) => "invalid",
            };
            let schema = Arc::new(Schema::new(vec![Field::new("a", DataType::Utf8, true)]));
            let r = arrow_read(&line, &schema, true)?;
            Ok(match r {
                Arrow::Rejected(_) => format!("json-grammar:{family}:{class}:rejected-by-both"),
                Arrow::Rows(_) => format!("json-grammar:{family}:{class}:arrow-lenient (not claimed)"),
            })
        }
        Ok(doc) => {
            if jsonp::has_duplicate_keys(&doc) {
                // RFC 8259 section 4: behaviour with duplicate names is unpredictable
                return Ok(format!("json-grammar:{family}:excluded:duplicate-keys"));
            }
            let Some((schema, want)) = schema_of(&doc) else {
                return Ok(format!("json-grammar:{family}:excluded:no-fitting-schema-or-unclaimed"));
            };
            match arrow_read(&line, &schema, false)? {
                Arrow::Rejected(e) => Err(Fail { stage: "grammar-rejects-valid", col: None, msg: format!("serde_json accepts {:?}, arrow-json with schema {} rejects it: {e}", String::from_utf8_lossy(text), schema.fields().iter().map(|f| format!("{}:{}", f.name(), f.data_type())).collect::<Vec<_>>().join(",")) }),
                Arrow::Rows(cols) => {
                    let got: Vec<V> = cols.iter().map(|c| if c.len() == 1 { c[0].clone() } else { V::L(c.clone()) }).collect();
                    if got != want {
                        Err(Fail { stage: "grammar-value-differs", col: None, msg: format!("document {:?} with schema {}: arrow-json reads {} , serde_json / RFC 8259 value is {}", String::from_utf8_lossy(text), schema.fields().iter().map(|f| format!("{}:{}", f.name(), f.data_type())).collect::<Vec<_>>().join(","), show_col(&got), show_col(&want)) })
                    } else {
                        Ok(format!("json-grammar:{family}:accepted-same-values"))
                    }
                }
            }
        }
    }
}

/// the top-level object `{"a": v, ...}` -> schema of its keys + expected values
fn schema_from_object(doc: &J, force: Option<&DataType>) -> Option<(Arc<Schema>, Vec<V>)> {
    let J::Obj(kvs) = doc else { return None };
    let mut fields = vec![];
    let mut want = vec![];
    for (k, v) in kvs {
        let dt = match force {
            Some(t) => t.clone(),
            None => infer(v)?,
        };
        want.push(expected(&dt, v)?);
        fields.push(Field::new(k, dt, true));
    }
    Some((Arc::new(Schema::new(fields)), want))
}

pub fn grammar_doc(sp: &GSpace, idx: u64) -> (Doc, Option<DataType>) {
    if idx < sp.n_num {
        let schema_k = idx % 3;
        let s = seq(idx / 3, NUM_CHARS.len() as u64, sp.num_len);
        let mut text = b"{\"a\":".to_vec();
        text.extend(s.iter().map(|d| NUM_CHARS[*d]));
        text.push(b'}');
        let dt = [DataType::Float64, DataType::Float32, DataType::Int64][schema_k as usize].clone();
        return (Doc { text, family: "number" }, Some(dt));
    }
    let idx = idx - sp.n_num;
    if idx < sp.n_str {
        let toks = string_tokens();
        let as_key = idx % 2 == 1;
        let s = seq(idx / 2, toks.len() as u64, sp.str_len);
        let body: String = s.iter().map(|d| toks[*d]).collect();
        let text = if as_key { format!("{{\"{body}\":1}}") } else { format!("{{\"a\":\"{body}\"}}") };
        return (Doc { text: text.into_bytes(), family: if as_key { "string-key" } else { "string-value" } }, None);
    }
    let idx = idx - sp.n_str;
    if idx < sp.n_ws {
        let (bi, ins) = &sp.ws_cases[idx as usize];
        let base = WS_BASES[*bi];
        let mut text = String::new();
        for g in 0..=base.len() {
            if let Some((_, w)) = ins.iter().find(|(gg, _)| *gg == g) {
                text.push_str(WS[*w]);
            }
            if g < base.len() {
                text.push_str(base[g]);
            }
        }
        return (Doc { text: text.into_bytes(), family: "whitespace" }, None);
    }
    let idx = idx - sp.n_ws;
    let s = seq(idx, STRUCT_TOKENS.len() as u64, sp.struct_len);
    let body: String = s.iter().map(|d| STRUCT_TOKENS[*d]).collect();
    (Doc { text: format!("{{\"a\":{body}}}").into_bytes(), family: "structure" }, None)
}

/// Triaged root causes of grammar findings (one semantic fingerprint each).
pub fn known_grammar_root_cause(text: &[u8]) -> Option<&'static str> {
    // an escaped surrogate pair `\uD840..\uDBFF \uDC00..\uDFFF` (code point >= U+20000)
    let t = String::from_utf8_lossy(text).to_ascii_uppercase();
    let b = t.as_bytes();
    let mut i = 0;
    while i + 12 <= b.len() {
        if &b[i..i + 2] == b"\\U" && &b[i + 6..i + 8] == b"\\U" {
            if let (Ok(h), Ok(l)) = (u32::from_str_radix(&t[i + 2..i + 6], 16), u32::from_str_radix(&t[i + 8..i + 12], 16)) {
                if (0xD840..0xDC00).contains(&h) && (0xDC00..0xE000).contains(&l) {
                    return Some("c17:json:reader:escaped-surrogate-pair-above-U+1FFFF-decoded-to-wrong-code-point");
                }
            }
        }
        i += 1;
    }
    None
}

pub fn run_grammar(sp: &GSpace, idx: u64) -> (Doc, Result<String, Fail>) {
    let (doc, force) = grammar_doc(sp, idx);
    let r = eval_doc(&doc.text, doc.family, |j| {
        match &force {
            Some(DataType::Int64) => {
                // claimed only for RFC 8259 integers inside the i64 range
                let J::Obj(kvs) = j else { return None };
                match &kvs[0].1 {
                    J::Num(raw) if raw.bytes().all(|b| b.is_ascii_digit() || b == b'-') => schema_from_object(j, force.as_ref()),
                    _ => None,
                }
            }
            _ => schema_from_object(j, force.as_ref()),
        }
    });
    (doc, r)
}

// ---------------------------------------------------------------------------------------------

pub fn tier_name(ctx: &Ctx) -> &'static str {
    if ctx.quick() { "quick" } else { "thorough" }
}

pub fn replay_rt(ctx: &Ctx, idx: u64) -> Result<String, String> {
    let blocks = Blocks::new(build_blocks(ctx), |b| b.size());
    if idx >= blocks.total {
        return Err(format!("index {idx} outside the space ({})", blocks.total));
    }
    let (bi, local) = blocks.locate(idx);
    let c = blocks.blocks[bi].case(local);
    println!("case: {}", case_json("json-rt", idx, tier_name(ctx), &c));
    match run_case(&c) {
        Ok(o) => Ok(o),
        Err(f) => {
            let (min, mf) = shrink(&c, f.stage);
            Err(format!("{}: {}\n  minimal: {} -> {}: {}", f.stage, f.msg, case_json("json-rt", idx, tier_name(ctx), &min), fingerprint(&min, &mf), mf.msg))
        }
    }
}

pub fn replay_grammar(ctx: &Ctx, idx: u64) -> Result<String, String> {
    let sp = gspace(ctx);
    let (doc, r) = run_grammar(&sp, idx);
    println!("document: {:?}", String::from_utf8_lossy(&doc.text));
    r.map_err(|f| format!("{}: {}", f.stage, f.msg))
}

pub fn run(ctx: &Ctx, order_base: u64) -> Stats {
    let mut st = Stats::new();
    let tier = tier_name(ctx);
    let blocks = Blocks::new(build_blocks(ctx), |b| b.size());
    let n = blocks.total;
    let nblocks = blocks.blocks.len();
    let res = par_for(ctx, "json-rt", n, 256, |idx, st| {
        let (bi, local) = blocks.locate(idx);
        let b = &blocks.blocks[bi];
        let c = b.case(local);
        let r = run_case(&c);
        let sub = format!("json-rt:{}", b.family);
        st.add(&sub, 1, (b.rows > 0) as u64);
        match r {
            Ok(class) => st.outcome(&class),
            Err(f) if f.stage == "harness" => st.violate(order_base + idx, format!("c17:json:HARNESS:{}", f.msg.chars().take(40).collect::<String>()), f.msg.clone(), || case_json("json-rt", idx, tier, &c)),
            Err(f) if known_root_cause(&c, &f).is_some() => {
                st.outcome(&format!("json-rt:violation:{}", f.stage));
                st.violate(order_base + idx, known_root_cause(&c, &f).unwrap(), format!("{} | types={:?} columns={:?} options={:?}", f.msg, c.types.iter().map(|t| t.to_string()).collect::<Vec<_>>(), c.cols.iter().map(|c| show_col(c)).collect::<Vec<_>>(), c.opts), || case_json("json-rt", idx, tier, &c));
            }
            Err(f) => {
                let (min, mf) = shrink(&c, f.stage);
                let fp = if mf.stage == "nondeterministic" { "c17:json:NONDETERMINISTIC".to_string() } else { fingerprint(&min, &mf) };
                st.outcome(&format!("json-rt:violation:{}", f.stage));
                st.violate(order_base + idx, fp, format!("{} | minimal case: types={:?} columns={:?} options={:?} -> {}", f.msg, min.types.iter().map(|t| t.to_string()).collect::<Vec<_>>(), min.cols.iter().map(|c| show_col(c)).collect::<Vec<_>>(), min.opts, mf.msg), || {
                    let mut j = case_json("json-rt", idx, tier, &c);
                    j["minimal"] = case_json("json-rt", idx, tier, &min);
                    j
                });
            }
        }
        if local == 0 && (bi == 0 || bi == nblocks / 2) {
            st.sample(&sub, || case_json("json-rt", idx, tier, &c));
        }
    });
    st.merge(res);
    st.extra.insert("json_rt".into(), json!({"cases": n, "blocks": nblocks}));

    let sp = gspace(ctx);
    let gn = sp.n_num + sp.n_str + sp.n_ws + sp.n_struct;
    let base2 = order_base + n;
    let res = par_for(ctx, "json-grammar", gn, 1024, |idx, st| {
        let (doc, r) = run_grammar(&sp, idx);
        let sub = format!("json-grammar:{}", doc.family);
        match r {
            Ok(class) => {
                st.add(&sub, 1, class.ends_with("accepted-same-values") as u64);
                st.outcome(&class);
            }
            Err(f) => {
                st.add(&sub, 1, 1);
                let fp = if f.stage == "harness" {
                    format!("c17:json:HARNESS:{}", doc.family)
                } else if let Some(k) = known_grammar_root_cause(&doc.text) {
                    k.to_string()
                } else {
                    format!("c17:json:{}:{}", f.stage, doc.family)
                };
                st.violate(base2 + idx, fp, f.msg.clone(), || json!({"sub":"json-grammar","idx":idx,"tier":tier,"document":String::from_utf8_lossy(&doc.text)}));
            }
        }
        if idx == sp.n_num / 2 || idx == sp.n_num + sp.n_str / 2 || idx == gn - 1 {
            st.sample(&sub, || json!({"document": String::from_utf8_lossy(&doc.text)}));
        }
    });
    st.merge(res);
    st.extra.insert("json_grammar".into(), json!({"documents": gn, "numbers": sp.n_num, "strings": sp.n_str, "whitespace": sp.n_ws, "structures": sp.n_struct, "number_max_chars": sp.num_len, "string_max_tokens": sp.str_len, "structure_max_tokens": sp.struct_len}));
    st.count("order_span_json", n + gn);
    st
}
