mod avrox;
mod c17;
mod csvx;
mod jsonp;
mod jsonx;
mod util;
mod val;
fn main() {
    let ctx = vcore::Ctx::from_args();
    match ctx.prop.as_str() {
        "C17" => c17::run(&ctx),
        other => {
            eprintln!("MACHINERY: vk-text does not serve property {other:?}");
            std::process::exit(2)
        }
    }
}
