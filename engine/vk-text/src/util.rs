//! enumeration helpers shared by the sub-engines

/// All points of a product of menus (`sizes[i]` choices for dimension i, choice 0 = default) that
/// deviate from the default point in at most `k` dimensions; simplest first (by number of deviations,
/// then lexicographic).
pub fn dev_points(sizes: &[usize], k: usize) -> Vec<Vec<usize>> {
    fn rec(sizes: &[usize], start: usize, remaining: usize, cur: &mut Vec<usize>, out: &mut Vec<Vec<usize>>) {
        if remaining == 0 {
            out.push(cur.clone());
            return;
        }
        for d in start..sizes.len() {
            for c in 1..sizes[d] {
                cur[d] = c;
                rec(sizes, d + 1, remaining - 1, cur, out);
            }
            cur[d] = 0;
        }
    }
    let mut out = vec![];
    for ndev in 0..=k.min(sizes.len()) {
        rec(sizes, 0, ndev, &mut vec![0; sizes.len()], &mut out);
    }
    out
}

/// Blocks of cases with prefix sums: global index -> (block, local index)
pub struct Blocks<B> {
    pub blocks: Vec<B>,
    pub starts: Vec<u64>,
    pub total: u64,
}

impl<B> Blocks<B> {
    pub fn new(blocks: Vec<B>, size: impl Fn(&B) -> u64) -> Self {
        let mut starts = Vec::with_capacity(blocks.len());
        let mut t = 0u64;
        for b in &blocks {
            starts.push(t);
            t += size(b);
        }
        Blocks { blocks, starts, total: t }
    }
    pub fn locate(&self, idx: u64) -> (usize, u64) {
        let b = self.starts.partition_point(|s| *s <= idx) - 1;
        (b, idx - self.starts[b])
    }
}

#[cfg(test)]
mod tests {
    use super::*;
    #[test]
    fn devs() {
        let p = dev_points(&[3, 2, 4], 2);
        // 1 + (2+1+3) + (2*1 + 2*3 + 1*3)
        assert_eq!(p.len(), 1 + 6 + 11);
        let mut q = p.clone();
        q.sort();
        q.dedup();
        assert_eq!(q.len(), p.len());
        assert_eq!(dev_points(&[3, 1, 4], 3).len(), 1 + 5 + 6);
    }
}
