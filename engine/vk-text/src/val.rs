//! Small logical value model + array construction / extraction used by the C17 sub-engines.
//!
//! `V` is independent of Arrow memory; `build` realises a logical column as an Arrow array with the
//! standard builders / validating constructors, `extract` reads an array back through typed accessors
//! only (no `==`, no kernels).
use arrow_array::builder::*;
use arrow_array::cast::AsArray;
use arrow_array::types::*;
use arrow_array::*;
use arrow_buffer::{ArrowNativeType, NullBuffer, OffsetBuffer, ScalarBuffer, i256};
use arrow_schema::{DataType, Field, FieldRef, Fields, IntervalUnit, TimeUnit};
use std::sync::Arc;

#[derive(Clone, Debug, PartialEq)]
pub enum V {
    Null,
    Bool(bool),
    /// every integer-backed type (ints, dates, times, timestamps, durations)
    I(i128),
    /// floats by bit pattern
    F16(u16),
    F32(u32),
    F64(u64),
    Dec(i256),
    S(String),
    B(Vec<u8>),
    /// months, days, nanos
    Mdn(i32, i32, i64),
    L(Vec<V>),
    St(Vec<V>),
    M(Vec<(V, V)>),
}

impl V {
    pub fn s(x: &str) -> V {
        V::S(x.to_string())
    }
    pub fn f64(x: f64) -> V {
        V::F64(x.to_bits())
    }
    pub fn f32(x: f32) -> V {
        V::F32(x.to_bits())
    }
    pub fn is_null(&self) -> bool {
        matches!(self, V::Null)
    }
    /// short printable form for messages
    pub fn show(&self) -> String {
        match self {
            V::Null => "null".into(),
            V::Bool(b) => b.to_string(),
            V::I(i) => i.to_string(),
            V::F16(b) => format!("f16:{:?}", half::f16::from_bits(*b)),
            V::F32(b) => format!("f32:{:?}", f32::from_bits(*b)),
            V::F64(b) => format!("f64:{:?}", f64::from_bits(*b)),
            V::Dec(d) => format!("dec:{d}"),
            V::S(s) => format!("{s:?}"),
            V::B(b) => format!("x{}", b.iter().map(|x| format!("{x:02x}")).collect::<String>()),
            V::Mdn(m, d, n) => format!("mdn({m},{d},{n})"),
            V::L(l) => format!("[{}]", l.iter().map(|x| x.show()).collect::<Vec<_>>().join(",")),
            V::St(l) => format!("{{{}}}", l.iter().map(|x| x.show()).collect::<Vec<_>>().join(",")),
            V::M(l) => format!("map{{{}}}", l.iter().map(|(k, v)| format!("{}:{}", k.show(), v.show())).collect::<Vec<_>>().join(",")),
        }
    }
}

pub fn show_col(c: &[V]) -> String {
    format!("[{}]", c.iter().map(|x| x.show()).collect::<Vec<_>>().join(", "))
}

fn int(v: &V) -> Option<i128> {
    match v {
        V::Null => None,
        V::I(i) => Some(*i),
        other => panic!("harness: expected integer value, got {other:?}"),
    }
}

macro_rules! prim {
    ($t:ty, $vals:expr, $dt:expr) => {{
        let a: PrimitiveArray<$t> = $vals.iter().map(|v| int(v).map(|i| i as <$t as ArrowPrimitiveType>::Native)).collect();
        Arc::new(a.with_data_type($dt.clone())) as ArrayRef
    }};
}

fn dec_i256(v: &V) -> Option<i256> {
    match v {
        V::Null => None,
        V::Dec(d) => Some(*d),
        other => panic!("harness: expected decimal, got {other:?}"),
    }
}

fn str_of(v: &V) -> Option<&str> {
    match v {
        V::Null => None,
        V::S(s) => Some(s.as_str()),
        other => panic!("harness: expected string, got {other:?}"),
    }
}
fn bytes_of(v: &V) -> Option<&[u8]> {
    match v {
        V::Null => None,
        V::B(s) => Some(s.as_slice()),
        other => panic!("harness: expected bytes, got {other:?}"),
    }
}

fn dict<K: ArrowDictionaryKeyType>(vals: &[V], value_type: &DataType) -> ArrayRef
where
    K::Native: TryFrom<usize>,
{
    // dictionary values in first-occurrence order, preceded by one unused entry (non-trivial layout)
    let mut dvals: Vec<V> = vec![V::s("~unused~")];
    let mut keys: Vec<Option<K::Native>> = vec![];
    for v in vals {
        if v.is_null() {
            keys.push(None);
            continue;
        }
        let pos = match dvals.iter().position(|d| d == v) {
            Some(p) => p,
            None => {
                dvals.push(v.clone());
                dvals.len() - 1
            }
        };
        keys.push(Some(K::Native::try_from(pos).ok().expect("dictionary key fits")));
    }
    let values = build(value_type, &dvals);
    let keys: PrimitiveArray<K> = keys.into_iter().collect();
    Arc::new(DictionaryArray::<K>::try_new(keys, values).expect("valid dictionary"))
}

fn nulls_of(vals: &[V]) -> Option<NullBuffer> {
    if vals.iter().any(|v| v.is_null()) { Some(NullBuffer::from(vals.iter().map(|v| !v.is_null()).collect::<Vec<bool>>())) } else { None }
}

/// Realise a logical column as an Arrow array of type `dt` (compact layout).
pub fn build(dt: &DataType, vals: &[V]) -> ArrayRef {
    match dt {
        DataType::Null => Arc::new(NullArray::new(vals.len())),
        DataType::Boolean => Arc::new(
            vals.iter()
                .map(|v| match v {
                    V::Null => None,
                    V::Bool(b) => Some(*b),
                    o => panic!("harness: expected bool, got {o:?}"),
                })
                .collect::<BooleanArray>(),
        ),
        DataType::Int8 => prim!(Int8Type, vals, dt),
        DataType::Int16 => prim!(Int16Type, vals, dt),
        DataType::Int32 => prim!(Int32Type, vals, dt),
        DataType::Int64 => prim!(Int64Type, vals, dt),
        DataType::UInt8 => prim!(UInt8Type, vals, dt),
        DataType::UInt16 => prim!(UInt16Type, vals, dt),
        DataType::UInt32 => prim!(UInt32Type, vals, dt),
        DataType::UInt64 => prim!(UInt64Type, vals, dt),
        DataType::Date32 => prim!(Date32Type, vals, dt),
        DataType::Date64 => prim!(Date64Type, vals, dt),
        DataType::Time32(TimeUnit::Second) => prim!(Time32SecondType, vals, dt),
        DataType::Time32(TimeUnit::Millisecond) => prim!(Time32MillisecondType, vals, dt),
        DataType::Time64(TimeUnit::Microsecond) => prim!(Time64MicrosecondType, vals, dt),
        DataType::Time64(TimeUnit::Nanosecond) => prim!(Time64NanosecondType, vals, dt),
        DataType::Timestamp(TimeUnit::Second, _) => prim!(TimestampSecondType, vals, dt),
        DataType::Timestamp(TimeUnit::Millisecond, _) => prim!(TimestampMillisecondType, vals, dt),
        DataType::Timestamp(TimeUnit::Microsecond, _) => prim!(TimestampMicrosecondType, vals, dt),
        DataType::Timestamp(TimeUnit::Nanosecond, _) => prim!(TimestampNanosecondType, vals, dt),
        DataType::Duration(TimeUnit::Second) => prim!(DurationSecondType, vals, dt),
        DataType::Duration(TimeUnit::Millisecond) => prim!(DurationMillisecondType, vals, dt),
        DataType::Duration(TimeUnit::Microsecond) => prim!(DurationMicrosecondType, vals, dt),
        DataType::Duration(TimeUnit::Nanosecond) => prim!(DurationNanosecondType, vals, dt),
        DataType::Interval(IntervalUnit::MonthDayNano) => Arc::new(
            vals.iter()
                .map(|v| match v {
                    V::Null => None,
                    V::Mdn(m, d, n) => Some(IntervalMonthDayNano::new(*m, *d, *n)),
                    o => panic!("harness: expected interval, got {o:?}"),
                })
                .collect::<IntervalMonthDayNanoArray>(),
        ),
        DataType::Float16 => Arc::new(
            vals.iter()
                .map(|v| match v {
                    V::Null => None,
                    V::F16(b) => Some(half::f16::from_bits(*b)),
                    o => panic!("harness: expected f16, got {o:?}"),
                })
                .collect::<Float16Array>(),
        ),
        DataType::Float32 => Arc::new(
            vals.iter()
                .map(|v| match v {
                    V::Null => None,
                    V::F32(b) => Some(f32::from_bits(*b)),
                    o => panic!("harness: expected f32, got {o:?}"),
                })
                .collect::<Float32Array>(),
        ),
        DataType::Float64 => Arc::new(
            vals.iter()
                .map(|v| match v {
                    V::Null => None,
                    V::F64(b) => Some(f64::from_bits(*b)),
                    o => panic!("harness: expected f64, got {o:?}"),
                })
                .collect::<Float64Array>(),
        ),
        DataType::Decimal32(p, s) => Arc::new(vals.iter().map(|v| dec_i256(v).map(|d| d.to_i128().unwrap() as i32)).collect::<Decimal32Array>().with_precision_and_scale(*p, *s).unwrap()),
        DataType::Decimal64(p, s) => Arc::new(vals.iter().map(|v| dec_i256(v).map(|d| d.to_i128().unwrap() as i64)).collect::<Decimal64Array>().with_precision_and_scale(*p, *s).unwrap()),
        DataType::Decimal128(p, s) => Arc::new(vals.iter().map(|v| dec_i256(v).map(|d| d.to_i128().unwrap())).collect::<Decimal128Array>().with_precision_and_scale(*p, *s).unwrap()),
        DataType::Decimal256(p, s) => Arc::new(vals.iter().map(dec_i256).collect::<Decimal256Array>().with_precision_and_scale(*p, *s).unwrap()),
        DataType::Utf8 => Arc::new(vals.iter().map(str_of).collect::<StringArray>()),
        DataType::LargeUtf8 => Arc::new(vals.iter().map(str_of).collect::<LargeStringArray>()),
        DataType::Utf8View => Arc::new(vals.iter().map(str_of).collect::<StringViewArray>()),
        DataType::Binary => Arc::new(vals.iter().map(bytes_of).collect::<BinaryArray>()),
        DataType::LargeBinary => Arc::new(vals.iter().map(bytes_of).collect::<LargeBinaryArray>()),
        DataType::BinaryView => Arc::new(vals.iter().map(bytes_of).collect::<BinaryViewArray>()),
        DataType::FixedSizeBinary(n) => {
            let mut b = FixedSizeBinaryBuilder::new(*n);
            for v in vals {
                match bytes_of(v) {
                    Some(x) => b.append_value(x).expect("fixed size"),
                    None => b.append_null(),
                }
            }
            Arc::new(b.finish())
        }
        DataType::Dictionary(k, vt) => match k.as_ref() {
            DataType::Int8 => dict::<Int8Type>(vals, vt),
            DataType::Int16 => dict::<Int16Type>(vals, vt),
            DataType::Int32 => dict::<Int32Type>(vals, vt),
            DataType::Int64 => dict::<Int64Type>(vals, vt),
            DataType::UInt8 => dict::<UInt8Type>(vals, vt),
            DataType::UInt16 => dict::<UInt16Type>(vals, vt),
            DataType::UInt32 => dict::<UInt32Type>(vals, vt),
            DataType::UInt64 => dict::<UInt64Type>(vals, vt),
            o => panic!("harness: dictionary key {o:?}"),
        },
        DataType::List(f) | DataType::LargeList(f) | DataType::ListView(f) | DataType::LargeListView(f) => {
            let mut child: Vec<V> = vec![];
            let mut offsets: Vec<usize> = vec![0];
            for v in vals {
                match v {
                    V::Null => {}
                    V::L(items) => child.extend(items.iter().cloned()),
                    o => panic!("harness: expected list, got {o:?}"),
                }
                offsets.push(child.len());
            }
            let values = build(f.data_type(), &child);
            let nulls = nulls_of(vals);
            match dt {
                DataType::List(_) => Arc::new(ListArray::try_new(f.clone(), OffsetBuffer::new(ScalarBuffer::from(offsets.iter().map(|x| *x as i32).collect::<Vec<_>>())), values, nulls).unwrap()),
                DataType::LargeList(_) => Arc::new(LargeListArray::try_new(f.clone(), OffsetBuffer::new(ScalarBuffer::from(offsets.iter().map(|x| *x as i64).collect::<Vec<_>>())), values, nulls).unwrap()),
                DataType::ListView(_) => {
                    let offs: Vec<i32> = offsets[..offsets.len() - 1].iter().map(|x| *x as i32).collect();
                    let sizes: Vec<i32> = offsets.windows(2).map(|w| (w[1] - w[0]) as i32).collect();
                    Arc::new(ListViewArray::try_new(f.clone(), ScalarBuffer::from(offs), ScalarBuffer::from(sizes), values, nulls).unwrap())
                }
                _ => {
                    let offs: Vec<i64> = offsets[..offsets.len() - 1].iter().map(|x| *x as i64).collect();
                    let sizes: Vec<i64> = offsets.windows(2).map(|w| (w[1] - w[0]) as i64).collect();
                    Arc::new(LargeListViewArray::try_new(f.clone(), ScalarBuffer::from(offs), ScalarBuffer::from(sizes), values, nulls).unwrap())
                }
            }
        }
        DataType::FixedSizeList(f, n) => {
            let mut child: Vec<V> = vec![];
            for v in vals {
                match v {
                    V::Null => child.extend(std::iter::repeat_n(filler(f.data_type(), f.is_nullable()), *n as usize)),
                    V::L(items) => {
                        assert_eq!(items.len(), *n as usize, "harness: fixed size list arity");
                        child.extend(items.iter().cloned())
                    }
                    o => panic!("harness: expected list, got {o:?}"),
                }
            }
            let values = build(f.data_type(), &child);
            Arc::new(FixedSizeListArray::try_new(f.clone(), *n, values, nulls_of(vals)).unwrap())
        }
        DataType::Struct(fields) => {
            let mut cols: Vec<ArrayRef> = vec![];
            for (i, f) in fields.iter().enumerate() {
                let child: Vec<V> = vals
                    .iter()
                    .map(|v| match v {
                        V::Null => filler(f.data_type(), f.is_nullable()),
                        V::St(items) => items[i].clone(),
                        o => panic!("harness: expected struct, got {o:?}"),
                    })
                    .collect();
                cols.push(build(f.data_type(), &child));
            }
            if fields.is_empty() { Arc::new(StructArray::new_empty_fields(vals.len(), nulls_of(vals))) } else { Arc::new(StructArray::try_new(fields.clone(), cols, nulls_of(vals)).unwrap()) }
        }
        DataType::Map(entries, sorted) => {
            let DataType::Struct(kv) = entries.data_type() else { panic!("harness: map entries") };
            let mut keys: Vec<V> = vec![];
            let mut values: Vec<V> = vec![];
            let mut offsets: Vec<i32> = vec![0];
            for v in vals {
                match v {
                    V::Null => {}
                    V::M(items) => {
                        for (k, x) in items {
                            keys.push(k.clone());
                            values.push(x.clone());
                        }
                    }
                    o => panic!("harness: expected map, got {o:?}"),
                }
                offsets.push(keys.len() as i32);
            }
            let st = StructArray::try_new(kv.clone(), vec![build(kv[0].data_type(), &keys), build(kv[1].data_type(), &values)], None).unwrap();
            Arc::new(MapArray::try_new(entries.clone(), OffsetBuffer::new(ScalarBuffer::from(offsets)), st, nulls_of(vals), *sorted).unwrap())
        }
        DataType::RunEndEncoded(re, vf) => {
            // maximal runs
            let mut ends: Vec<i64> = vec![];
            let mut rv: Vec<V> = vec![];
            for (i, v) in vals.iter().enumerate() {
                if rv.last() == Some(v) {
                    *ends.last_mut().unwrap() = i as i64 + 1;
                } else {
                    rv.push(v.clone());
                    ends.push(i as i64 + 1);
                }
            }
            let values = build(vf.data_type(), &rv);
            match re.data_type() {
                DataType::Int16 => Arc::new(RunArray::<Int16Type>::try_new(&Int16Array::from(ends.iter().map(|x| *x as i16).collect::<Vec<_>>()), &values).unwrap()),
                DataType::Int32 => Arc::new(RunArray::<Int32Type>::try_new(&Int32Array::from(ends.iter().map(|x| *x as i32).collect::<Vec<_>>()), &values).unwrap()),
                _ => Arc::new(RunArray::<Int64Type>::try_new(&Int64Array::from(ends), &values).unwrap()),
            }
        }
        other => panic!("harness: build() does not support {other:?}"),
    }
}

/// value placed in child slots that are masked by a null parent
pub fn filler(dt: &DataType, nullable: bool) -> V {
    if nullable {
        return V::Null;
    }
    match dt {
        DataType::Null => V::Null,
        DataType::Boolean => V::Bool(false),
        DataType::Float16 => V::F16(0),
        DataType::Float32 => V::F32(0),
        DataType::Float64 => V::F64(0),
        DataType::Decimal32(..) | DataType::Decimal64(..) | DataType::Decimal128(..) | DataType::Decimal256(..) => V::Dec(i256::ZERO),
        DataType::Utf8 | DataType::LargeUtf8 | DataType::Utf8View => V::s(""),
        DataType::Binary | DataType::LargeBinary | DataType::BinaryView => V::B(vec![]),
        DataType::FixedSizeBinary(n) => V::B(vec![0; *n as usize]),
        DataType::List(_) | DataType::LargeList(_) | DataType::ListView(_) | DataType::LargeListView(_) => V::L(vec![]),
        DataType::FixedSizeList(f, n) => V::L(vec![filler(f.data_type(), f.is_nullable()); *n as usize]),
        DataType::Struct(fs) => V::St(fs.iter().map(|f| filler(f.data_type(), f.is_nullable())).collect()),
        DataType::Map(..) => V::M(vec![]),
        DataType::Interval(_) => V::Mdn(0, 0, 0),
        DataType::Dictionary(_, v) => filler(v, false),
        DataType::RunEndEncoded(_, v) => filler(v.data_type(), false),
        _ => V::I(0),
    }
}

/// Build with `lead` extra leading rows and one trailing row (content `pad`), then slice them away:
/// the result has a non-zero offset and (for byte arrays / lists) a non-zero first value offset.
pub fn build_sliced(dt: &DataType, vals: &[V], pad: &V, lead: usize) -> ArrayRef {
    let mut all: Vec<V> = vec![pad.clone(); lead];
    all.extend(vals.iter().cloned());
    all.push(pad.clone());
    build(dt, &all).slice(lead, vals.len())
}

macro_rules! ext_prim {
    ($t:ty, $a:expr) => {{
        let a = $a.as_primitive::<$t>();
        (0..a.len()).map(|i| if a.is_null(i) { V::Null } else { V::I(a.value(i) as i128) }).collect()
    }};
}

fn offsets_list<O: OffsetSizeTrait>(a: &GenericListArray<O>) -> Vec<V> {
    let child = extract(a.values().as_ref());
    (0..a.len())
        .map(|i| {
            if a.is_null(i) {
                V::Null
            } else {
                let (s, e) = (a.value_offsets()[i].as_usize(), a.value_offsets()[i + 1].as_usize());
                V::L(child[s..e].to_vec())
            }
        })
        .collect()
}
fn offsets_list_view<O: OffsetSizeTrait>(a: &GenericListViewArray<O>) -> Vec<V> {
    let child = extract(a.values().as_ref());
    (0..a.len())
        .map(|i| {
            if a.is_null(i) {
                V::Null
            } else {
                let (s, n) = (a.value_offsets()[i].as_usize(), a.value_sizes()[i].as_usize());
                V::L(child[s..s + n].to_vec())
            }
        })
        .collect()
}

fn ext_dict<K: ArrowDictionaryKeyType>(a: &dyn Array) -> Vec<V> {
    let d = a.as_dictionary::<K>();
    let values = extract(d.values().as_ref());
    (0..d.len())
        .map(|i| {
            if d.keys().is_null(i) {
                V::Null
            } else {
                values[d.keys().value(i).as_usize()].clone()
            }
        })
        .collect()
}

fn ext_run<K: RunEndIndexType>(a: &dyn Array) -> Vec<V> {
    let r = a.as_any().downcast_ref::<RunArray<K>>().expect("run array");
    let values = extract(r.values().as_ref());
    (0..r.len()).map(|i| values[r.get_physical_index(i)].clone()).collect()
}

/// Read a column back through typed accessors.
pub fn extract(a: &dyn Array) -> Vec<V> {
    match a.data_type() {
        DataType::Null => vec![V::Null; a.len()],
        DataType::Boolean => {
            let b = a.as_boolean();
            (0..b.len()).map(|i| if b.is_null(i) { V::Null } else { V::Bool(b.value(i)) }).collect()
        }
        DataType::Int8 => ext_prim!(Int8Type, a),
        DataType::Int16 => ext_prim!(Int16Type, a),
        DataType::Int32 => ext_prim!(Int32Type, a),
        DataType::Int64 => ext_prim!(Int64Type, a),
        DataType::UInt8 => ext_prim!(UInt8Type, a),
        DataType::UInt16 => ext_prim!(UInt16Type, a),
        DataType::UInt32 => ext_prim!(UInt32Type, a),
        DataType::UInt64 => ext_prim!(UInt64Type, a),
        DataType::Date32 => ext_prim!(Date32Type, a),
        DataType::Date64 => ext_prim!(Date64Type, a),
        DataType::Time32(TimeUnit::Second) => ext_prim!(Time32SecondType, a),
        DataType::Time32(TimeUnit::Millisecond) => ext_prim!(Time32MillisecondType, a),
        DataType::Time64(TimeUnit::Microsecond) => ext_prim!(Time64MicrosecondType, a),
        DataType::Time64(TimeUnit::Nanosecond) => ext_prim!(Time64NanosecondType, a),
        DataType::Timestamp(TimeUnit::Second, _) => ext_prim!(TimestampSecondType, a),
        DataType::Timestamp(TimeUnit::Millisecond, _) => ext_prim!(TimestampMillisecondType, a),
        DataType::Timestamp(TimeUnit::Microsecond, _) => ext_prim!(TimestampMicrosecondType, a),
        DataType::Timestamp(TimeUnit::Nanosecond, _) => ext_prim!(TimestampNanosecondType, a),
        DataType::Duration(TimeUnit::Second) => ext_prim!(DurationSecondType, a),
        DataType::Duration(TimeUnit::Millisecond) => ext_prim!(DurationMillisecondType, a),
        DataType::Duration(TimeUnit::Microsecond) => ext_prim!(DurationMicrosecondType, a),
        DataType::Duration(TimeUnit::Nanosecond) => ext_prim!(DurationNanosecondType, a),
        DataType::Interval(IntervalUnit::MonthDayNano) => {
            let p = a.as_primitive::<IntervalMonthDayNanoType>();
            (0..p.len())
                .map(|i| {
                    if p.is_null(i) {
                        V::Null
                    } else {
                        let x = p.value(i);
                        V::Mdn(x.months, x.days, x.nanoseconds)
                    }
                })
                .collect()
        }
        DataType::Float16 => {
            let p = a.as_primitive::<Float16Type>();
            (0..p.len()).map(|i| if p.is_null(i) { V::Null } else { V::F16(p.value(i).to_bits()) }).collect()
        }
        DataType::Float32 => {
            let p = a.as_primitive::<Float32Type>();
            (0..p.len()).map(|i| if p.is_null(i) { V::Null } else { V::F32(p.value(i).to_bits()) }).collect()
        }
        DataType::Float64 => {
            let p = a.as_primitive::<Float64Type>();
            (0..p.len()).map(|i| if p.is_null(i) { V::Null } else { V::F64(p.value(i).to_bits()) }).collect()
        }
        DataType::Decimal32(..) => {
            let p = a.as_primitive::<Decimal32Type>();
            (0..p.len()).map(|i| if p.is_null(i) { V::Null } else { V::Dec(i256::from_i128(p.value(i) as i128)) }).collect()
        }
        DataType::Decimal64(..) => {
            let p = a.as_primitive::<Decimal64Type>();
            (0..p.len()).map(|i| if p.is_null(i) { V::Null } else { V::Dec(i256::from_i128(p.value(i) as i128)) }).collect()
        }
        DataType::Decimal128(..) => {
            let p = a.as_primitive::<Decimal128Type>();
            (0..p.len()).map(|i| if p.is_null(i) { V::Null } else { V::Dec(i256::from_i128(p.value(i))) }).collect()
        }
        DataType::Decimal256(..) => {
            let p = a.as_primitive::<Decimal256Type>();
            (0..p.len()).map(|i| if p.is_null(i) { V::Null } else { V::Dec(p.value(i)) }).collect()
        }
        DataType::Utf8 => {
            let s = a.as_string::<i32>();
            (0..s.len()).map(|i| if s.is_null(i) { V::Null } else { V::s(s.value(i)) }).collect()
        }
        DataType::LargeUtf8 => {
            let s = a.as_string::<i64>();
            (0..s.len()).map(|i| if s.is_null(i) { V::Null } else { V::s(s.value(i)) }).collect()
        }
        DataType::Utf8View => {
            let s = a.as_string_view();
            (0..s.len()).map(|i| if s.is_null(i) { V::Null } else { V::s(s.value(i)) }).collect()
        }
        DataType::Binary => {
            let s = a.as_binary::<i32>();
            (0..s.len()).map(|i| if s.is_null(i) { V::Null } else { V::B(s.value(i).to_vec()) }).collect()
        }
        DataType::LargeBinary => {
            let s = a.as_binary::<i64>();
            (0..s.len()).map(|i| if s.is_null(i) { V::Null } else { V::B(s.value(i).to_vec()) }).collect()
        }
        DataType::BinaryView => {
            let s = a.as_binary_view();
            (0..s.len()).map(|i| if s.is_null(i) { V::Null } else { V::B(s.value(i).to_vec()) }).collect()
        }
        DataType::FixedSizeBinary(_) => {
            let s = a.as_fixed_size_binary();
            (0..s.len()).map(|i| if s.is_null(i) { V::Null } else { V::B(s.value(i).to_vec()) }).collect()
        }
        DataType::Dictionary(k, _) => match k.as_ref() {
            DataType::Int8 => ext_dict::<Int8Type>(a),
            DataType::Int16 => ext_dict::<Int16Type>(a),
            DataType::Int32 => ext_dict::<Int32Type>(a),
            DataType::Int64 => ext_dict::<Int64Type>(a),
            DataType::UInt8 => ext_dict::<UInt8Type>(a),
            DataType::UInt16 => ext_dict::<UInt16Type>(a),
            DataType::UInt32 => ext_dict::<UInt32Type>(a),
            _ => ext_dict::<UInt64Type>(a),
        },
        DataType::List(_) => offsets_list(a.as_list::<i32>()),
        DataType::LargeList(_) => offsets_list(a.as_list::<i64>()),
        DataType::ListView(_) => offsets_list_view(a.as_list_view::<i32>()),
        DataType::LargeListView(_) => offsets_list_view(a.as_list_view::<i64>()),
        DataType::FixedSizeList(_, n) => {
            let l = a.as_fixed_size_list();
            let n = *n as usize;
            // values() is the full child; account for the parent offset
            let child = extract(l.values().as_ref());
            let base = l.value_offset(0) as usize;
            (0..l.len()).map(|i| if l.is_null(i) { V::Null } else { V::L(child[base + i * n..base + (i + 1) * n].to_vec()) }).collect()
        }
        DataType::Struct(_) => {
            let s = a.as_struct();
            let cols: Vec<Vec<V>> = s.columns().iter().map(|c| extract(c.as_ref())).collect();
            (0..s.len()).map(|i| if s.is_null(i) { V::Null } else { V::St(cols.iter().map(|c| c[i].clone()).collect()) }).collect()
        }
        DataType::Map(..) => {
            let m = a.as_map();
            let keys = extract(m.keys().as_ref());
            let vals = extract(m.values().as_ref());
            (0..m.len())
                .map(|i| {
                    if m.is_null(i) {
                        V::Null
                    } else {
                        let (s, e) = (m.value_offsets()[i] as usize, m.value_offsets()[i + 1] as usize);
                        V::M((s..e).map(|j| (keys[j].clone(), vals[j].clone())).collect())
                    }
                })
                .collect()
        }
        DataType::RunEndEncoded(re, _) => match re.data_type() {
            DataType::Int16 => ext_run::<Int16Type>(a),
            DataType::Int32 => ext_run::<Int32Type>(a),
            _ => ext_run::<Int64Type>(a),
        },
        other => panic!("harness: extract() does not support {other:?}"),
    }
}

pub fn field(name: &str, dt: DataType, nullable: bool) -> FieldRef {
    Arc::new(Field::new(name, dt, nullable))
}
pub fn struct_of(fs: Vec<FieldRef>) -> DataType {
    DataType::Struct(Fields::from(fs))
}

// ---------------------------------------------------------------------------------------------
// independent calendar arithmetic (days <-> civil date), after the well-known public-domain
// "days_from_civil" algorithm; used by the independent text decoders

pub fn days_from_civil(y: i64, m: i64, d: i64) -> i64 {
    let y = if m <= 2 { y - 1 } else { y };
    let era = y.div_euclid(400);
    let yoe = y - era * 400;
    let mp = (m + 9) % 12;
    let doy = (153 * mp + 2) / 5 + d - 1;
    let doe = yoe * 365 + yoe / 4 - yoe / 100 + doy;
    era * 146097 + doe - 719468
}

pub fn days_in_month(y: i64, m: i64) -> i64 {
    match m {
        1 | 3 | 5 | 7 | 8 | 10 | 12 => 31,
        4 | 6 | 9 | 11 => 30,
        _ => {
            if (y % 4 == 0 && y % 100 != 0) || y % 400 == 0 {
                29
            } else {
                28
            }
        }
    }
}

/// Independent parser for `YYYY-MM-DD[(T| )HH:MM:SS[.f{1,9}]][Z|(+|-)HH:MM| (+|-)HH:MM]` -> (nanoseconds
/// since the epoch of the *local* reading, utc offset seconds if a zone was present)
pub fn parse_iso(s: &str) -> Option<(i128, Option<i64>)> {
    let b = s.as_bytes();
    let num = |r: std::ops::Range<usize>| -> Option<i64> {
        let t = b.get(r)?;
        if t.is_empty() || !t.iter().all(|c| c.is_ascii_digit()) {
            return None;
        }
        std::str::from_utf8(t).ok()?.parse().ok()
    };
    if b.len() < 10 || b[4] != b'-' || b[7] != b'-' {
        return None;
    }
    let (y, m, d) = (num(0..4)?, num(5..7)?, num(8..10)?);
    if !(1..=12).contains(&m) || d < 1 || d > days_in_month(y, m) {
        return None;
    }
    let days = days_from_civil(y, m, d) as i128;
    if b.len() == 10 {
        return Some((days * 86_400_000_000_000, None));
    }
    if b[10] != b'T' && b[10] != b' ' {
        return None;
    }
    if b.len() < 19 || b[13] != b':' || b[16] != b':' {
        return None;
    }
    let (hh, mm, ss) = (num(11..13)?, num(14..16)?, num(17..19)?);
    if hh > 23 || mm > 59 || ss > 59 {
        return None;
    }
    let mut pos = 19;
    let mut nanos: i128 = 0;
    if b.get(pos) == Some(&b'.') {
        pos += 1;
        let start = pos;
        while pos < b.len() && b[pos].is_ascii_digit() {
            pos += 1;
        }
        let nd = pos - start;
        if nd == 0 || nd > 9 {
            return None;
        }
        nanos = num(start..pos)? as i128 * 10i128.pow(9 - nd as u32);
    }
    let local = days * 86_400_000_000_000 + (hh * 3600 + mm * 60 + ss) as i128 * 1_000_000_000 + nanos;
    if pos == b.len() {
        return Some((local, None));
    }
    if b[pos] == b'Z' && pos + 1 == b.len() {
        return Some((local, Some(0)));
    }
    if b[pos] == b' ' {
        pos += 1;
    }
    let sign = match b.get(pos)? {
        b'+' => 1,
        b'-' => -1,
        _ => return None,
    };
    if b.len() != pos + 6 || b[pos + 3] != b':' {
        return None;
    }
    let off = sign * (num(pos + 1..pos + 3)? * 3600 + num(pos + 4..pos + 6)? * 60);
    Some((local, Some(off)))
}

/// `HH:MM:SS[.f{1,9}]` -> nanoseconds since midnight
pub fn parse_time(s: &str) -> Option<i128> {
    let (local, z) = parse_iso(&format!("1970-01-01T{s}"))?;
    if z.is_some() {
        return None;
    }
    Some(local)
}

/// independent decimal text -> unscaled integer (as decimal digit string with sign) for a given scale;
/// accepts `[-]digits[.digits]`; returns None when the text has more fractional digits than `scale`
/// allows without being zero, or is malformed
pub fn parse_decimal_text(s: &str, scale: i8) -> Option<i256> {
    let (neg, body) = match s.strip_prefix('-') {
        Some(r) => (true, r),
        None => (false, s),
    };
    let (ip, fp) = match body.split_once('.') {
        Some((a, b)) => (a, b),
        None => (body, ""),
    };
    if ip.is_empty() && fp.is_empty() {
        return None;
    }
    if !ip.bytes().all(|c| c.is_ascii_digit()) || !fp.bytes().all(|c| c.is_ascii_digit()) {
        return None;
    }
    let mut digits: String = format!("{ip}{fp}");
    let mut frac = fp.len() as i64;
    let scale = scale as i64;
    while frac < scale {
        digits.push('0');
        frac += 1;
    }
    while frac > scale {
        // only exact representations are accepted
        if digits.pop()? != '0' {
            return None;
        }
        frac -= 1;
    }
    let mut acc = i256::ZERO;
    let ten = i256::from_i128(10);
    for c in digits.bytes() {
        acc = acc.checked_mul(ten)?.checked_add(i256::from_i128((c - b'0') as i128))?;
    }
    Some(if neg { acc.checked_neg()? } else { acc })
}

// ---------------------------------------------------------------------------------------------
// deterministic "long value" families: lengths that cross internal staging buffers / block sizes
// (64-byte hex staging buffer of the JSON reader, 1024-byte CSV record buffers, 8 KiB writer flush
// thresholds, 64-byte varint length boundary of Avro, view inlining at 12 bytes is in the short alphabets)

pub fn long_lengths(thorough: bool) -> Vec<usize> {
    let mut v = vec![63, 64, 65, 127, 128, 129, 500, 1023, 1024, 1025, 8191, 8192, 8193];
    if thorough {
        v.extend([255, 256, 257, 511, 512, 513, 2047, 2048, 2049, 4095, 4096, 4097, 16383, 16384, 16385]);
        v.sort();
    }
    v
}

/// largest power-of-two boundary b in 64..=16384 with b + 1 <= len (a 2-byte character starting at
/// b-1 then still fits); None for len < 65
pub fn boundary(len: usize) -> Option<usize> {
    [16384usize, 8192, 4096, 2048, 1024, 512, 256, 128, 64].into_iter().find(|b| b + 1 <= len)
}

pub fn ascii_ramp(n: usize) -> String {
    (0..n).map(|i| (b'a' + (i % 26) as u8) as char).collect()
}
pub fn bytes_ramp(n: usize) -> Vec<u8> {
    (0..n).map(|i| i as u8).collect()
}
pub fn bytes_ff00(n: usize) -> Vec<u8> {
    (0..n).map(|i| if i % 2 == 0 { 0xff } else { 0x00 }).collect()
}

/// `len` bytes of ASCII ramp with `insert` placed so that it starts `back` bytes before the boundary
/// (so it straddles it); falls back to placing it at the end when the string is too short
pub fn straddle(len: usize, insert: &str, back: usize) -> String {
    let il = insert.len();
    match boundary(len) {
        Some(b) if b - back + il <= len => format!("{}{}{}", ascii_ramp(b - back), insert, ascii_ramp(len - (b - back) - il)),
        _ => format!("{}{}", ascii_ramp(len.saturating_sub(il)), insert),
    }
}
