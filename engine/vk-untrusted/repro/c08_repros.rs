//! Standalone reproductions of the C08 findings (no verification machinery: only the arrow-rs crates).
//!
//!   cargo run --release --offline -p vk-untrusted --example c08_repros -- <case>
//!
//! cases:
//!   variant-uuid-short      Variant::try_new panics on a 1-byte UUID value
//!   variant-date-overflow   Variant::try_new panics on a DATE whose day count overflows chrono
//!   ipc-flip-probe          every single-bit flip of a small IPC stream / file (each in a forked
//!                           child): distinct panic sites, allocation requests, invalid arrays
//!   flight-flip-probe       same through flight_data_to_batches (header and body of each FlightData)
//!   parquet-flip-probe      every single-bit flip of small Parquet files: distinct panic sites and
//!                           the first flips that make the reader RETURN AN INVALID ARRAY
//!   ipc-file-block-alloc    FileReader allocates a footer block's bodyLength before reading (F9)
//!   ipc-lz4-alloc           IPC decompression trusts the 8-byte uncompressed length prefix
//!   avro-snappy-alloc       Avro OCF snappy block: allocation of the declared decompressed length
//!   avro-ocf-hang           Avro OCF Reader spins when a block's count is smaller than its data
//!
//! A guard allocator ends the process (or the probe child) with a message when a single request exceeds
//! 65 MiB (otherwise the machine's memory decides whether such a request aborts or succeeds).
use arrow_array::*;
use arrow_schema::*;
use std::alloc::{GlobalAlloc, Layout, System};
use std::collections::BTreeMap;
use std::io::Cursor;
use std::sync::Arc;

struct Guard;
unsafe impl GlobalAlloc for Guard {
    unsafe fn alloc(&self, l: Layout) -> *mut u8 {
        big(l.size());
        unsafe { System.alloc(l) }
    }
    unsafe fn alloc_zeroed(&self, l: Layout) -> *mut u8 {
        big(l.size());
        unsafe { System.alloc_zeroed(l) }
    }
    unsafe fn dealloc(&self, p: *mut u8, l: Layout) {
        unsafe { System.dealloc(p, l) }
    }
    unsafe fn realloc(&self, p: *mut u8, l: Layout, n: usize) -> *mut u8 {
        big(n);
        unsafe { System.realloc(p, l, n) }
    }
}
/// where the guard reports (stdout, or the result pipe of a probe child)
static RESULT_FD: std::sync::atomic::AtomicI32 = std::sync::atomic::AtomicI32::new(1);
fn big(n: usize) {
    if n > (64 << 20) + (1 << 20) {
        let msg = format!("A DEFECT: the reader requested a single allocation of {n} bytes\n");
        unsafe {
            libc::write(RESULT_FD.load(std::sync::atomic::Ordering::Relaxed), msg.as_ptr() as *const libc::c_void, msg.len());
            libc::_exit(3);
        }
    }
}
#[global_allocator]
static G: Guard = Guard;

fn batch() -> RecordBatch {
    let schema = Arc::new(Schema::new(vec![Field::new("i", DataType::Int32, true), Field::new("s", DataType::Utf8, true), Field::new("b", DataType::Boolean, true)]));
    RecordBatch::try_new(
        schema,
        vec![
            Arc::new(Int32Array::from(vec![Some(1), None, Some(3)])),
            Arc::new(StringArray::from(vec![Some("alpha"), None, Some("gamma")])),
            Arc::new(BooleanArray::from(vec![Some(true), Some(false), None])),
        ],
    )
    .unwrap()
}

fn ipc_stream(b: &RecordBatch, comp: Option<arrow_ipc::CompressionType>) -> Vec<u8> {
    let o = arrow_ipc::writer::IpcWriteOptions::try_new(8, false, arrow_ipc::MetadataVersion::V5).unwrap().try_with_compression(comp).unwrap();
    let mut w = arrow_ipc::writer::StreamWriter::try_new_with_options(Vec::new(), &b.schema(), o).unwrap();
    w.write(b).unwrap();
    w.finish().unwrap();
    w.into_inner().unwrap()
}
fn ipc_file(b: &RecordBatch) -> Vec<u8> {
    let mut w = arrow_ipc::writer::FileWriter::try_new(Vec::new(), &b.schema()).unwrap();
    w.write(b).unwrap();
    w.finish().unwrap();
    w.into_inner().unwrap()
}

/// Ok(batches) / Err(text)
type Read = dyn Fn(&[u8]) -> Result<Vec<RecordBatch>, String>;

fn read_stream(b: &[u8]) -> Result<Vec<RecordBatch>, String> {
    let r = arrow_ipc::reader::StreamReader::try_new(Cursor::new(b), None).map_err(|e| e.to_string())?;
    r.collect::<Result<Vec<_>, _>>().map_err(|e| e.to_string())
}
fn read_file(b: &[u8]) -> Result<Vec<RecordBatch>, String> {
    let r = arrow_ipc::reader::FileReader::try_new(Cursor::new(b), None).map_err(|e| e.to_string())?;
    r.collect::<Result<Vec<_>, _>>().map_err(|e| e.to_string())
}
fn read_parquet(b: &[u8]) -> Result<Vec<RecordBatch>, String> {
    let r = parquet::arrow::arrow_reader::ParquetRecordBatchReaderBuilder::try_new(bytes::Bytes::copy_from_slice(b)).map_err(|e| e.to_string())?.build().map_err(|e| e.to_string())?;
    r.collect::<Result<Vec<_>, _>>().map_err(|e| e.to_string())
}

/// All single-bit flips, each in a forked child (so that an abort, a refused allocation or a spin only
/// costs that child). Prints each distinct panic site, allocation request, hang and every class of
/// INVALID ARRAY returned with Ok, with the first flip that reaches it.
fn probe(name: &str, bytes: &[u8], read: &Read) {
    let mut classes: BTreeMap<String, (usize, u8, usize)> = BTreeMap::new();
    let (mut n_err, mut n_ok) = (0, 0);
    for p in 0..bytes.len() {
        for bit in 0..8u8 {
            let mut m = bytes.to_vec();
            m[p] ^= 1 << bit;
            let mut fds = [0i32; 2];
            unsafe { libc::pipe(fds.as_mut_ptr()) };
            let pid = unsafe { libc::fork() };
            if pid == 0 {
                // child
                unsafe {
                    libc::close(fds[0]);
                    libc::alarm(10);
                }
                RESULT_FD.store(fds[1], std::sync::atomic::Ordering::Relaxed);
                let loc = std::sync::Arc::new(std::sync::Mutex::new(String::new()));
                let l2 = loc.clone();
                std::panic::set_hook(Box::new(move |i| {
                    let msg = i.payload().downcast_ref::<String>().cloned().or_else(|| i.payload().downcast_ref::<&str>().map(|s| s.to_string())).unwrap_or_default();
                    let file = i.location().map(|l| l.file().to_string()).unwrap_or_default();
                    *l2.lock().unwrap() = format!("{file} :: {}", msg.chars().filter(|c| !c.is_ascii_digit() && *c != '\n').take(90).collect::<String>());
                }));
                let line = match std::panic::catch_unwind(std::panic::AssertUnwindSafe(|| read(&m))) {
                    Err(_) => format!("P PANIC {}", loc.lock().unwrap()),
                    Ok(Err(_)) => "E".to_string(),
                    Ok(Ok(bs)) => {
                        let mut bad = None;
                        for b in &bs {
                            for (f, c) in b.schema().fields().iter().zip(b.columns()) {
                                if let Err(e) = c.to_data().validate_full() {
                                    bad = Some(format!("I INVALID ARRAY RETURNED {:?}: {}", f.data_type(), e.to_string().chars().filter(|c| *c != '\n').take(160).collect::<String>()));
                                }
                            }
                        }
                        bad.unwrap_or_else(|| "O".to_string())
                    }
                };
                unsafe {
                    libc::write(fds[1], line.as_ptr() as *const libc::c_void, line.len());
                    libc::_exit(0);
                }
            }
            unsafe { libc::close(fds[1]) };
            let mut out = vec![];
            let mut buf = [0u8; 4096];
            loop {
                let n = unsafe { libc::read(fds[0], buf.as_mut_ptr() as *mut libc::c_void, buf.len()) };
                if n <= 0 {
                    break;
                }
                out.extend_from_slice(&buf[..n as usize]);
            }
            unsafe { libc::close(fds[0]) };
            let mut status = 0;
            unsafe { libc::waitpid(pid, &mut status, 0) };
            let line = String::from_utf8_lossy(&out).trim().to_string();
            let class = if libc::WIFSIGNALED(status) {
                if libc::WTERMSIG(status) == libc::SIGALRM { "HANG: no result within 10 s".to_string() } else { format!("KILLED by signal {}", libc::WTERMSIG(status)) }
            } else if line == "E" {
                n_err += 1;
                continue;
            } else if line == "O" {
                n_ok += 1;
                continue;
            } else {
                // one class per message shape (sizes and indices vary from flip to flip)
                line[2.min(line.len())..].chars().filter(|c| !c.is_ascii_digit()).collect()
            };
            classes.entry(class).and_modify(|e| e.2 += 1).or_insert((p, bit, 1));
        }
    }
    println!("{name}: {} bytes, {} single-bit flips: {n_ok} Ok and valid, {n_err} Err, {} violations in {} classes", bytes.len(), bytes.len() * 8, classes.values().map(|v| v.2).sum::<usize>(), classes.len());
    for (k, (p, bit, n)) in &classes {
        println!("  x{n} (first: flip bit {bit} of byte {p}): {k}");
    }
}

fn pq_write(b: &RecordBatch, props: parquet::file::properties::WriterProperties) -> Vec<u8> {
    let mut w = parquet::arrow::ArrowWriter::try_new(Vec::new(), b.schema(), Some(props)).unwrap();
    w.write(b).unwrap();
    w.into_inner().unwrap()
}

fn main() {
    let case = std::env::args().nth(1).unwrap_or_default();
    match case.as_str() {
        "variant-uuid-short" => {
            // basic type 0 (primitive), type id 20 (UUID) << 2 = 0x50, no payload
            println!("Variant::try_new(&[1,0,0], &[0x50]) ...");
            let r = parquet_variant::Variant::try_new(&[1, 0, 0], &[0x50]);
            println!("returned {:?} (expected an Err; a panic above is the defect)", r.map(|v| format!("{v:?}")));
        }
        "variant-date-overflow" => {
            println!("Variant::try_new(&[1,0,0], &[0x2c,0x38,0x4a,0x00,0x08]) ...");
            let r = parquet_variant::Variant::try_new(&[1, 0, 0], &[0x2c, 0x38, 0x4a, 0x00, 0x08]);
            println!("returned {:?} (expected an Err; a panic above is the defect)", r.map(|v| format!("{v:?}")));
        }
        "ipc-flip-probe" => {
            let b = batch();
            probe("IPC stream / StreamReader", &ipc_stream(&b, None), &read_stream);
            probe("IPC file / FileReader", &ipc_file(&b), &read_file);
        }
        "flight-flip-probe" => {
            let b = batch();
            let fds = arrow_flight::utils::batches_to_flight_data(&b.schema(), vec![b.clone()]).unwrap();
            // flat image: header0, body0, header1, body1 with fixed boundaries
            let mut flat = vec![];
            let mut cuts = vec![];
            for f in &fds {
                flat.extend_from_slice(&f.data_header);
                cuts.push(flat.len());
                flat.extend_from_slice(&f.data_body);
                cuts.push(flat.len());
            }
            let cuts2 = cuts.clone();
            let read = move |m: &[u8]| -> Result<Vec<RecordBatch>, String> {
                let mut v = vec![];
                let mut prev = 0;
                for c in cuts2.chunks(2) {
                    v.push(arrow_flight::FlightData { flight_descriptor: None, data_header: bytes::Bytes::copy_from_slice(&m[prev..c[0]]), app_metadata: Default::default(), data_body: bytes::Bytes::copy_from_slice(&m[c[0]..c[1]]) });
                    prev = c[1];
                }
                arrow_flight::utils::flight_data_to_batches(&v).map_err(|e| e.to_string())
            };
            probe("FlightData x2 / flight_data_to_batches", &flat, &read);
        }
        "parquet-flip-probe" => {
            use parquet::basic::Compression;
            use parquet::file::properties::{EnabledStatistics, WriterProperties, WriterVersion};
            let b = batch();
            let p1 = WriterProperties::builder().set_dictionary_enabled(false).set_statistics_enabled(EnabledStatistics::None).build();
            probe("Parquet PLAIN v1 / ParquetRecordBatchReader", &pq_write(&b, p1), &read_parquet);
            let p2 = WriterProperties::builder().set_writer_version(WriterVersion::PARQUET_2_0).set_compression(Compression::SNAPPY).set_statistics_enabled(EnabledStatistics::None).build();
            probe("Parquet dict v2 snappy / ParquetRecordBatchReader", &pq_write(&b, p2), &read_parquet);
            // a dictionary-typed column restored through the embedded arrow schema, and a map column
            let d: DictionaryArray<types::Int8Type> = vec![Some("red"), Some("green"), None].into_iter().collect();
            let mut mb = builder::MapBuilder::new(None, builder::StringBuilder::new(), builder::Int32Builder::new());
            for i in 0..3 {
                mb.keys().append_value(format!("k{i}"));
                mb.values().append_value(i);
                mb.append(true).unwrap();
            }
            let m = mb.finish();
            let schema = Arc::new(Schema::new(vec![Field::new("d", d.data_type().clone(), true), Field::new("m", m.data_type().clone(), true)]));
            let b2 = RecordBatch::try_new(schema, vec![Arc::new(d), Arc::new(m)]).unwrap();
            let p3 = WriterProperties::builder().set_statistics_enabled(EnabledStatistics::None).build();
            probe("Parquet dictionary + map columns / ParquetRecordBatchReader", &pq_write(&b2, p3), &read_parquet);
        }
        "ipc-file-block-alloc" => {
            let mut f = ipc_file(&batch());
            // footer = [.. flatbuffer ..][i32 footer length]["ARROW1"]; the record batch Block struct is
            // {offset: i64, metaDataLength: i32, pad, bodyLength: i64}
            let n = f.len();
            let flen = i32::from_le_bytes(f[n - 10..n - 6].try_into().unwrap()) as usize;
            let footer = arrow_ipc::root_as_footer(&f[n - 10 - flen..n - 10]).unwrap();
            let blk = footer.recordBatches().unwrap().get(0);
            let mut pat = vec![];
            pat.extend_from_slice(&blk.offset().to_le_bytes());
            pat.extend_from_slice(&blk.metaDataLength().to_le_bytes());
            let at = (n - 10 - flen..n - 10 - 24).find(|&i| f[i..i + 12] == pat[..]).expect("block in footer") + 16;
            println!("footer block: offset={} metaDataLength={} bodyLength={} (bodyLength field at byte {at})", blk.offset(), blk.metaDataLength(), blk.bodyLength());
            f[at..at + 8].copy_from_slice(&(1i64 << 40).to_le_bytes());
            println!("bodyLength := 2^40, reading a {}-byte file with FileReader ...", f.len());
            println!("result: {:?}", read_file(&f).map(|b| b.len()));
        }
        "ipc-lz4-alloc" => {
            let b = RecordBatch::try_new(Arc::new(Schema::new(vec![Field::new("i", DataType::Int32, false)])), vec![Arc::new(Int32Array::from(vec![1, 2, 3, 4]))]).unwrap();
            let mut s = ipc_stream(&b, Some(arrow_ipc::CompressionType::LZ4_FRAME));
            // second message = record batch; its body starts with the first non-empty buffer:
            // [i64 uncompressed length][lz4 frame]
            let mut p = 0;
            let mut body_at = 0;
            for _ in 0..2 {
                let mlen = u32::from_le_bytes(s[p + 4..p + 8].try_into().unwrap()) as usize;
                let m = arrow_ipc::root_as_message(&s[p + 8..p + 8 + mlen]).unwrap();
                body_at = p + 8 + mlen;
                p = body_at + m.bodyLength() as usize;
            }
            println!("uncompressed-length prefix at byte {body_at}: {}", i64::from_le_bytes(s[body_at..body_at + 8].try_into().unwrap()));
            s[body_at..body_at + 8].copy_from_slice(&(1i64 << 40).to_le_bytes());
            println!("prefix := 2^40, reading a {}-byte stream with StreamReader ...", s.len());
            println!("result: {:?}", read_stream(&s).map(|b| b.len()));
        }
        "avro-snappy-alloc" | "avro-ocf-hang" => {
            let schema = Schema::new(vec![Field::new("x", DataType::Int64, false)]);
            let b = RecordBatch::try_new(Arc::new(schema.clone()), vec![Arc::new(Int64Array::from(vec![7, 8, 9]))]).unwrap();
            let codec = if case == "avro-snappy-alloc" { Some(arrow_avro::compression::CompressionCodec::Snappy) } else { None };
            let mut w = arrow_avro::writer::WriterBuilder::new(schema).with_compression(codec).build::<_, arrow_avro::writer::format::AvroOcfFormat>(Vec::new()).unwrap();
            w.write(&b).unwrap();
            w.finish().unwrap();
            let mut bytes = w.into_inner();
            let sync = bytes[bytes.len() - 16..].to_vec();
            // block = <count varint><size varint><data><sync>, right after the header's sync marker
            let p = bytes.windows(16).position(|w| w == sync).unwrap() + 16;
            if case == "avro-ocf-hang" {
                assert_eq!(bytes[p], 6, "zig-zag(3 records)");
                bytes[p] = 2; // declare 1 record, the data still holds 3
                println!("block count 3 -> 1; reading with arrow_avro Reader (expected: Err or 1..3 rows; the defect is that it never returns) ...");
            } else {
                // snappy raw format starts with the uncompressed length as a varint: make it 2^31-1
                let data_at = p + 2;
                let mut m = bytes[..data_at].to_vec();
                m.extend_from_slice(&[0xff, 0xff, 0xff, 0xff, 0x07]);
                m.extend_from_slice(&bytes[data_at + 1..]);
                // fix the block size varint (was < 64): +4 bytes
                m[p + 1] = ((bytes[p + 1] as i64 / 2 + 4) * 2) as u8;
                bytes = m;
                println!("snappy length varint := 2^31-1; reading a {}-byte file ...", bytes.len());
            }
            let (tx, rx) = std::sync::mpsc::channel();
            std::thread::spawn(move || {
                let out = arrow_avro::reader::ReaderBuilder::new().build(Cursor::new(bytes)).map(|r| r.map(|b| b.map(|b| b.num_rows()).map_err(|e| e.to_string())).collect::<Vec<_>>()).map_err(|e| e.to_string());
                let _ = tx.send(format!("{out:?}"));
            });
            match rx.recv_timeout(std::time::Duration::from_secs(10)) {
                Ok(s) => println!("reader returned: {s}"),
                Err(_) => {
                    println!("DEFECT: Reader::next() did not return within 10 s (spinning)");
                    std::process::exit(1)
                }
            }
        }
        _ => {
            eprintln!("usage: c08_repros <variant-uuid-short|variant-date-overflow|ipc-flip-probe|flight-flip-probe|parquet-flip-probe|ipc-file-block-alloc|ipc-lz4-alloc|avro-snappy-alloc|avro-ocf-hang>");
            std::process::exit(2)
        }
    }
}
