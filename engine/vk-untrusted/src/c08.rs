//! C08 — untrusted bytes yield an error or valid data (never an invalid array, a panic, a hang or an
//! allocation unrelated to the input size).
//!
//! Parent: builds the corpus, lays out the evaluation index space, runs worker subprocesses of this
//! binary over block-aligned index ranges, attributes deaths / hangs / refused allocations to the case
//! in flight, merges the block results and writes the evidence.
//! Worker (`--worker lo hi [--skip a,b,..]`): runs the cases of its range in-process under the
//! allocation meter and `vcore::catch`, prints `@ idx` before each case and one `S <json>` line per
//! completed block.
use crate::corpus::{self, Entry, Fmt, Rd};
use crate::meter;
use crate::mutate::{self, Mutated, Op};
use crate::readers::{self, Outcome};
use arrow_array::RecordBatch;
use std::collections::{BTreeMap, BTreeSet};
use std::sync::Mutex;
use std::sync::atomic::{AtomicU64, Ordering};
use std::time::Duration;
use vcore::serde_json::{Value, json};
use vcore::sub::{WorkerEnd, run_worker};
use vcore::{Ctx, Level, Stats, catch};

pub const BLOCK: u64 = 512;
const MIB: usize = 1 << 20;
const RLIMIT_AS: u64 = 4 << 30;
const WATCHDOG: Duration = Duration::from_secs(20);

/// bytes one read may hold: max(64 MiB, 4096 x input length) plus 1 MiB of slack, so that the
/// pre-allocation cap the IPC stream reader documents (exactly 64 MiB, `MAX_PREALLOC_BYTES`) together
/// with the reader's small bookkeeping allocations stays inside the bound.
pub fn alloc_bound(input_len: usize) -> usize {
    (64 * MIB).max(4096 * input_len) + MIB
}

#[derive(Clone, Debug)]
pub enum JobKind {
    Mut { entry: usize, op: Op },
    Splice { a: usize, b: usize },
    /// every value byte string of length <= 2 against the metadata of `entry`
    ShortValue { entry: usize },
    /// every metadata byte string of length <= 2 against the value of `entry`
    ShortMeta { entry: usize },
}

#[derive(Clone, Debug)]
pub struct Job {
    pub kind: JobKind,
    pub n_mut: u64,
    pub readers: Vec<Rd>,
    pub start: u64,
    pub sub: String,
}

pub struct Plan {
    pub corpus: Vec<Entry>,
    pub jobs: Vec<Job>,
    pub total: u64,
}

/// quick-tier corpus subset: entries whose name is listed get the full operator set; every other entry
/// still gets truncations, windows and splices but only if `quick_full` says so.
fn in_quick(e: &Entry) -> bool {
    // quick tier runs all operators except byte255 on every entry (measured to fit the budget)
    let _ = e;
    true
}

pub fn plan(thorough: bool) -> Plan {
    let corpus = corpus::build();
    let mut jobs = vec![];
    let mut start = 0u64;
    let mut push = |kind: JobKind, n_mut: u64, readers: Vec<Rd>, sub: String| {
        if n_mut == 0 || readers.is_empty() {
            return;
        }
        let n = n_mut * readers.len() as u64;
        jobs.push(Job { kind, n_mut, readers, start, sub });
        start += n;
    };
    for (i, e) in corpus.iter().enumerate() {
        if !thorough && !in_quick(e) {
            continue;
        }
        for op in mutate::ops_for(e.fmt, thorough) {
            push(JobKind::Mut { entry: i, op }, mutate::count(e, op), e.readers.clone(), format!("{}/{}", e.fmt.name(), op.name()));
        }
    }
    // cross-splices: every ordered pair of distinct same-format entries
    for (i, a) in corpus.iter().enumerate() {
        for (j, b) in corpus.iter().enumerate() {
            if i == j || a.fmt != b.fmt {
                continue;
            }
            let readers: Vec<Rd> = a.readers.iter().copied().filter(|r| b.readers.contains(r)).collect();
            push(JobKind::Splice { a: i, b: j }, mutate::splice_count(a, b), readers, format!("{}/splice", a.fmt.name()));
        }
    }
    // Variant: exhaustive short values / metadata against the distinct corpus metadata / values
    let mut seen_meta: BTreeSet<Vec<u8>> = BTreeSet::new();
    for (i, e) in corpus.iter().enumerate() {
        if e.fmt != Fmt::Variant {
            continue;
        }
        let meta = e.bytes[..e.segs[0]].to_vec();
        if seen_meta.insert(meta) {
            push(JobKind::ShortValue { entry: i }, mutate::SHORT_STRINGS, e.readers.clone(), "variant/short-values".into());
        }
    }
    for (i, e) in corpus.iter().enumerate() {
        if e.fmt != Fmt::Variant {
            continue;
        }
        if ["variant/object", "variant/list", "variant/int8", "variant/string-short"].contains(&e.name.as_str()) {
            push(JobKind::ShortMeta { entry: i }, mutate::SHORT_STRINGS, e.readers.clone(), "variant/short-metadata".into());
        }
    }
    Plan { corpus, jobs, total: start }
}

impl Plan {
    pub fn locate(&self, idx: u64) -> (usize, u64, usize) {
        let j = match self.jobs.binary_search_by(|j| j.start.cmp(&idx)) {
            Ok(j) => j,
            Err(j) => j - 1,
        };
        let job = &self.jobs[j];
        let local = idx - job.start;
        let nr = job.readers.len() as u64;
        (j, local / nr, (local % nr) as usize)
    }
    /// the mutated input of (job, k) plus the entry that supplies reader context and the pristine bytes
    pub fn input(&self, j: usize, k: u64) -> (Mutated, usize) {
        match &self.jobs[j].kind {
            JobKind::Mut { entry, op } => (mutate::apply(&self.corpus[*entry], *op, k), *entry),
            JobKind::Splice { a, b } => (mutate::splice(&self.corpus[*a], &self.corpus[*b], k), *a),
            JobKind::ShortValue { entry } => {
                let e = &self.corpus[*entry];
                let mut bytes = e.bytes[..e.segs[0]].to_vec();
                let v = mutate::short_string(k);
                bytes.extend_from_slice(&v);
                let n = bytes.len();
                (Mutated { bytes, segs: vec![e.segs[0], n], desc: format!("metadata of {} with value bytes {v:02x?}", e.name) }, *entry)
            }
            JobKind::ShortMeta { entry } => {
                let e = &self.corpus[*entry];
                let m = mutate::short_string(k);
                let mut bytes = m.clone();
                bytes.extend_from_slice(&e.bytes[e.segs[0]..]);
                let n = bytes.len();
                (Mutated { bytes, segs: vec![m.len(), n], desc: format!("value of {} with metadata bytes {m:02x?}", e.name) }, *entry)
            }
        }
    }
    pub fn case_json(&self, idx: u64, tier: &str) -> Value {
        let (j, k, r) = self.locate(idx);
        let (m, ei) = self.input(j, k);
        let job = &self.jobs[j];
        json!({
            "idx": idx,
            "tier": tier,
            "sub": job.sub,
            "entry": self.corpus[ei].name,
            "reader": job.readers[r].name(),
            "mutation": m.desc,
            "k": k,
            "input_len": m.bytes.len(),
            "input_hex": hex(&m.bytes),
            "segs": m.segs,
        })
    }
}

pub fn hex(b: &[u8]) -> String {
    let mut s = String::with_capacity(b.len() * 2);
    for x in b {
        s.push_str(&format!("{x:02x}"));
    }
    s
}
pub fn unhex(s: &str) -> Vec<u8> {
    (0..s.len() / 2).map(|i| u8::from_str_radix(&s[2 * i..2 * i + 2], 16).unwrap_or(0)).collect()
}

// ------------------------------------------------------------------------------------------------
// one evaluation

pub struct Eval {
    /// outcome class for the histogram
    pub class: String,
    /// (fingerprint, message) when the oracle is violated
    pub violation: Option<(String, String)>,
    pub peak: usize,
}

type Pristine = BTreeMap<(usize, Rd), (Vec<RecordBatch>, String)>;

pub fn evaluate(rd: Rd, e: &Entry, bytes: &[u8], segs: &[usize], pristine: Option<&(Vec<RecordBatch>, String)>) -> Eval {
    let bound = alloc_bound(bytes.len());
    let r = catch(|| {
        meter::arm(bound);
        let o = readers::run(rd, e, bytes, segs);
        let peak = meter::disarm();
        (o, peak)
    });
    match r {
        Err(p) => {
            meter::disarm();
            let fp = format!("c08:{}:{}", rd.name(), panic_fp(&p));
            Eval { class: "panic".into(), violation: Some((fp, format!("panic at {}:{}: {}", p.file, p.line, p.msg.chars().take(300).collect::<String>()))), peak: 0 }
        }
        Ok((Outcome::Err(c), peak)) => Eval { class: format!("err:{c}"), violation: None, peak },
        Ok((Outcome::Invalid(fp, msg), peak)) => Eval { class: "invalid".into(), violation: Some((format!("wf:c08:{}:{}", rd.name(), fp), msg)), peak },
        Ok((Outcome::Ok { batches, note }, peak)) => {
            let class = match pristine {
                Some((pb, pn)) => {
                    let same = catch(|| readers::same_batches(pb, &batches) && *pn == note).unwrap_or(false);
                    if same { "ok-same" } else { "ok-changed" }
                }
                None => "ok",
            };
            let class = if rd == Rd::VariantTryNew { format!("{class}:{}", note.split(' ').next().unwrap_or("")) } else { class.to_string() };
            Eval { class, violation: None, peak }
        }
    }
}

/// call-site fingerprint of a panic: repo-relative (or registry-relative, version stripped) file + message
pub fn panic_fp(p: &vcore::PanicInfo) -> String {
    let mut file = p.file.clone();
    if let Some(pos) = file.find("/registry/src/") {
        // ~/.cargo/registry/src/<index>/<crate>-<version>/src/x.rs -> <crate>-#/src/x.rs
        let rest = &file[pos + "/registry/src/".len()..];
        let rest = rest.split_once('/').map(|x| x.1).unwrap_or(rest);
        file = format!("dep:{}", vcore::strip_digits(rest));
    } else if let Some(pos) = file.find("/rustc/") {
        let rest = &file[pos + "/rustc/".len()..];
        let rest = rest.split_once('/').map(|x| x.1).unwrap_or(rest);
        file = format!("std:{rest}");
    }
    let q = vcore::PanicInfo { file, line: p.line, msg: p.msg.clone() };
    q.fingerprint()
}

fn pristine_of(plan: &Plan) -> Pristine {
    let mut m = Pristine::new();
    for (i, e) in plan.corpus.iter().enumerate() {
        for &rd in &e.readers {
            if let Ok(Outcome::Ok { batches, note }) = catch(|| readers::run(rd, e, &e.bytes, &e.segs)) {
                m.insert((i, rd), (batches, note));
            }
        }
    }
    m
}

/// every corpus entry must decode cleanly with each of its readers, else the corpus is broken
fn corpus_selfcheck(plan: &Plan) -> Result<(), String> {
    for e in &plan.corpus {
        for &rd in &e.readers {
            match catch(|| readers::run(rd, e, &e.bytes, &e.segs)) {
                Ok(Outcome::Ok { batches, note }) => {
                    let rows: usize = batches.iter().map(|b| b.num_rows()).sum();
                    let expect_rows = !matches!(rd, Rd::PqMeta | Rd::VariantTryNew) && !e.name.contains("empty") && !e.name.contains("schema-only");
                    if expect_rows && rows == 0 {
                        return Err(format!("{} / {}: pristine input decodes to 0 rows ({note})", e.name, rd.name()));
                    }
                }
                Ok(Outcome::Err(c)) => return Err(format!("{} / {}: pristine input is rejected: {c}", e.name, rd.name())),
                Ok(Outcome::Invalid(fp, m)) => return Err(format!("{} / {}: pristine input fails the oracle: {fp}: {m}", e.name, rd.name())),
                Err(p) => return Err(format!("{} / {}: pristine input panics: {p:?}", e.name, rd.name())),
            }
        }
    }
    Ok(())
}

// ------------------------------------------------------------------------------------------------
// worker

#[derive(Default)]
struct BlockAcc {
    subs: BTreeMap<String, (u64, u64)>,
    out: BTreeMap<String, u64>,
    viol: BTreeMap<String, (u64, u64, String, Value)>, // fp -> (count, min order, msg, case)
    peak: usize,
    samples: Vec<(String, Value)>,
}

impl BlockAcc {
    fn to_json(&self, lo: u64, hi: u64) -> Value {
        json!({
            "lo": lo, "hi": hi,
            "subs": self.subs.iter().map(|(k, v)| (k.clone(), json!([v.0, v.1]))).collect::<vcore::serde_json::Map<_, _>>(),
            "out": self.out,
            "viol": self.viol.iter().map(|(fp, v)| json!({"fp": fp, "n": v.0, "order": v.1, "msg": v.2, "case": v.3})).collect::<Vec<_>>(),
            "peak": self.peak,
            "samples": self.samples.iter().map(|(s, c)| json!({"sub": s, "case": c})).collect::<Vec<_>>(),
        })
    }
}

pub fn order_key(entry_len: usize, idx: u64) -> u64 {
    ((entry_len as u64) << 40) | (idx & ((1 << 40) - 1))
}

fn worker(ctx: &Ctx, lo: u64, hi: u64, skip: &BTreeSet<u64>) -> ! {
    let plan = plan(!ctx.quick());
    let pristine = pristine_of(&plan);
    let tier = if ctx.quick() { "quick" } else { "thorough" };
    let hi = hi.min(plan.total);
    let mut acc = BlockAcc::default();
    let mut block_lo = lo;
    let mut cached: Option<(usize, u64, Mutated, usize)> = None;
    for idx in lo..hi {
        if !skip.contains(&idx) {
            let (j, k, r) = plan.locate(idx);
            if cached.as_ref().map(|c| (c.0, c.1)) != Some((j, k)) {
                let (m, ei) = plan.input(j, k);
                cached = Some((j, k, m, ei));
            }
            let (_, _, m, ei) = cached.as_ref().unwrap();
            let job = &plan.jobs[j];
            let rd = job.readers[r];
            let e = &plan.corpus[*ei];
            println!("@ {idx}");
            meter::CASE_IDX.store(idx, Ordering::Relaxed);
            let ev = evaluate(rd, e, &m.bytes, &m.segs, pristine.get(&(*ei, rd)));
            meter::CASE_IDX.store(u64::MAX, Ordering::Relaxed);
            let nontrivial = m.bytes != e.bytes;
            let s = acc.subs.entry(job.sub.clone()).or_default();
            s.0 += 1;
            s.1 += nontrivial as u64;
            *acc.out.entry(format!("{}|{}", rd.name(), ev.class)).or_default() += 1;
            acc.peak = acc.peak.max(ev.peak);
            if idx % 100_003 == 0 && acc.samples.len() < 2 {
                let mut c = plan.case_json(idx, tier);
                c["outcome"] = json!(ev.class);
                c["peak_alloc"] = json!(ev.peak);
                acc.samples.push((job.sub.clone(), c));
            }
            if let Some((fp, msg)) = ev.violation {
                let order = order_key(e.bytes.len(), idx);
                match acc.viol.get_mut(&fp) {
                    Some(v) => {
                        v.0 += 1;
                        if order < v.1 {
                            *v = (v.0, order, msg, plan.case_json(idx, tier));
                        }
                    }
                    None => {
                        acc.viol.insert(fp, (1, order, msg, plan.case_json(idx, tier)));
                    }
                }
            }
        }
        if (idx + 1) % BLOCK == 0 || idx + 1 == hi {
            println!("S {}", acc.to_json(block_lo, idx + 1));
            acc = BlockAcc::default();
            block_lo = idx + 1;
        }
    }
    println!("DONE");
    std::process::exit(0);
}

// ------------------------------------------------------------------------------------------------
// parent

fn merge_block(st: &mut Stats, v: &Value, peak: &mut u64) {
    if let Some(subs) = v["subs"].as_object() {
        for (k, c) in subs {
            st.add(k, c[0].as_u64().unwrap_or(0), c[1].as_u64().unwrap_or(0));
        }
    }
    if let Some(out) = v["out"].as_object() {
        for (k, c) in out {
            st.outcome_n(k, c.as_u64().unwrap_or(0));
        }
    }
    if let Some(viol) = v["viol"].as_array() {
        for x in viol {
            let fp = x["fp"].as_str().unwrap_or("?").to_string();
            let n = x["n"].as_u64().unwrap_or(1);
            let case = x["case"].clone();
            st.violate(x["order"].as_u64().unwrap_or(0), fp.clone(), x["msg"].as_str().unwrap_or(""), || case);
            if n > 1 {
                *st.viol_counts.entry(fp).or_default() += n - 1;
            }
        }
    }
    if let Some(s) = v["samples"].as_array() {
        for x in s {
            let c = x["case"].clone();
            st.sample(x["sub"].as_str().unwrap_or("?"), || c);
        }
    }
    *peak = (*peak).max(v["peak"].as_u64().unwrap_or(0));
}

/// Runs [lo, hi) to completion with as many worker restarts as needed. Returns the merged stats.
fn run_unit(ctx: &Ctx, plan: &Plan, exe: &std::path::Path, lo: u64, hi: u64, peak: &mut u64) -> Stats {
    let tier = if ctx.quick() { "quick" } else { "thorough" };
    let mut st = Stats::new();
    let mut skip: BTreeSet<u64> = BTreeSet::new();
    let mut cur = lo;
    let mut restarts = 0u64;
    while cur < hi {
        let mut args: Vec<String> = vec!["C08".into(), "--tier".into(), tier.into(), "--worker".into(), cur.to_string(), hi.to_string()];
        if !skip.is_empty() {
            args.push("--skip".into());
            args.push(skip.iter().filter(|&&s| s >= cur).map(|s| s.to_string()).collect::<Vec<_>>().join(","));
        }
        let mut committed = cur;
        let mut block_stats = Stats::new();
        let mut last_alloc: Option<(u64, u64, i64, String)> = None;
        let mut machinery: Option<String> = None;
        let end = run_worker(exe, &args, Some(RLIMIT_AS), WATCHDOG, |l| {
            if let Some(j) = l.strip_prefix("S ") {
                match vcore::serde_json::from_str::<Value>(j) {
                    Ok(v) => {
                        merge_block(&mut block_stats, &v, peak);
                        committed = v["hi"].as_u64().unwrap_or(committed);
                    }
                    Err(e) => machinery = Some(format!("bad block line: {e}")),
                }
            } else if let Some(a) = l.strip_prefix("A ") {
                let mut it = a.splitn(4, ' ');
                let idx = it.next().and_then(|x| x.parse().ok()).unwrap_or(u64::MAX);
                let req = it.next().and_then(|x| x.parse().ok()).unwrap_or(0);
                let held = it.next().and_then(|x| x.parse().ok()).unwrap_or(0);
                let site = it.next().unwrap_or("unknown").trim().to_string();
                last_alloc = Some((idx, req, held, site));
            }
        });
        if let Some(m) = machinery {
            eprintln!("MACHINERY: {m}");
            std::process::exit(2);
        }
        st.merge(block_stats);
        match end {
            WorkerEnd::Completed => {
                cur = hi;
            }
            WorkerEnd::Died { desc, in_flight } => {
                restarts += 1;
                let Some(idx) = in_flight.filter(|&i| i >= committed && i < hi) else {
                    eprintln!("MACHINERY: worker [{cur},{hi}) died outside a case: {desc}");
                    std::process::exit(2);
                };
                let (j, k, r) = plan.locate(idx);
                let (m, ei) = plan.input(j, k);
                let job = &plan.jobs[j];
                let rd = job.readers[r];
                let e = &plan.corpus[ei];
                let order = order_key(e.bytes.len(), idx);
                let refused = desc.contains(&format!("code=Some({})", meter::REFUSE_EXIT));
                let (fp, msg, class) = match (&last_alloc, refused) {
                    (Some((aidx, req, held, site)), true) if *aidx == idx => {
                        let site = &resolve_site(ctx, exe, idx, site);
                        (
                        format!("c08:{}:alloc@{}", rd.name(), site),
                        format!("allocation of {req} bytes requested ({held} bytes held by the read) for a {}-byte input; bound {} bytes; requesting call site {site}", m.bytes.len(), alloc_bound(m.bytes.len())),
                        "alloc-refused",
                    )},
                    _ => {
                        let sig = desc.split_whitespace().take(2).collect::<Vec<_>>().join(" ");
                        (format!("c08:{}:died:{}", rd.name(), vcore::strip_digits(&sig)), format!("worker died while reading: {desc}"), "died")
                    }
                };
                st.add(&job.sub, 1, (m.bytes != e.bytes) as u64);
                st.outcome(&format!("{}|{}", rd.name(), class));
                st.violate(order, fp, msg, || plan.case_json(idx, tier));
                skip.insert(idx);
                cur = committed;
            }
            WorkerEnd::Hung { in_flight } => {
                restarts += 1;
                let Some(idx) = in_flight.filter(|&i| i >= committed && i < hi) else {
                    eprintln!("MACHINERY: worker [{cur},{hi}) hung outside a case");
                    std::process::exit(2);
                };
                let (j, k, r) = plan.locate(idx);
                let (m, ei) = plan.input(j, k);
                let job = &plan.jobs[j];
                let rd = job.readers[r];
                let e = &plan.corpus[ei];
                st.add(&job.sub, 1, (m.bytes != e.bytes) as u64);
                st.outcome(&format!("{}|hang", rd.name()));
                st.violate(order_key(e.bytes.len(), idx), format!("c08:{}:hang", rd.name()), format!("no result within {} s for a {}-byte input", WATCHDOG.as_secs(), m.bytes.len()), || plan.case_json(idx, tier));
                skip.insert(idx);
                cur = committed;
            }
        }
        if restarts > 200_000 {
            eprintln!("MACHINERY: too many worker restarts in [{lo},{hi})");
            std::process::exit(2);
        }
    }
    st.count("worker_restarts", restarts);
    st
}

/// Maps the raw (anchor-relative) stack of a refusal to its call site, symbolising each distinct raw
/// stack once by re-running the case in a `--resolve` worker.
fn resolve_site(ctx: &Ctx, exe: &std::path::Path, idx: u64, token: &str) -> String {
    static CACHE: Mutex<BTreeMap<String, String>> = Mutex::new(BTreeMap::new());
    if let Some(s) = token.strip_prefix("site:") {
        return s.to_string();
    }
    let mut cache = CACHE.lock().unwrap();
    if let Some(s) = cache.get(token) {
        return s.clone();
    }
    let tier = if ctx.quick() { "quick" } else { "thorough" };
    let args: Vec<String> = vec!["C08".into(), "--tier".into(), tier.into(), "--worker".into(), idx.to_string(), (idx + 1).to_string(), "--resolve".into()];
    let mut site: Option<String> = None;
    let _ = run_worker(exe, &args, Some(RLIMIT_AS), Duration::from_secs(120), |l| {
        if let Some(a) = l.strip_prefix("A ") {
            if let Some(p) = a.find("site:") {
                site = Some(a[p + 5..].trim().to_string());
            }
        }
    });
    let Some(site) = site else {
        eprintln!("MACHINERY: could not resolve the allocation site of case {idx}");
        std::process::exit(2);
    };
    cache.insert(token.to_string(), site.clone());
    site
}

fn arg_after(ctx: &Ctx, flag: &str, n: usize) -> Option<String> {
    let p = ctx.extra_args.iter().position(|a| a == flag)?;
    ctx.extra_args.get(p + n).cloned()
}

pub fn run(ctx: &Ctx) -> ! {
    if ctx.has_flag("--worker") {
        if ctx.has_flag("--resolve") {
            meter::RESOLVE.store(true, Ordering::Relaxed);
        }
        let lo: u64 = arg_after(ctx, "--worker", 1).and_then(|s| s.parse().ok()).expect("worker lo");
        let hi: u64 = arg_after(ctx, "--worker", 2).and_then(|s| s.parse().ok()).expect("worker hi");
        let skip: BTreeSet<u64> = arg_after(ctx, "--skip", 1).map(|s| s.split(',').filter_map(|x| x.parse().ok()).collect()).unwrap_or_default();
        worker(ctx, lo, hi, &skip);
    }
    if ctx.has_flag("--replay-child") {
        replay_child(ctx);
    }
    if ctx.replay.is_some() {
        replay(ctx);
    }
    let plan = plan(!ctx.quick());
    if ctx.has_flag("--corpus") {
        for e in &plan.corpus {
            println!("{:40} {:5} bytes segs={:?} bounds={:?} readers={:?}", e.name, e.bytes.len(), e.segs.len(), e.bounds.len(), e.readers.iter().map(|r| r.name()).collect::<Vec<_>>());
        }
        let mut per: BTreeMap<String, u64> = BTreeMap::new();
        for j in &plan.jobs {
            *per.entry(j.sub.clone()).or_default() += j.n_mut * j.readers.len() as u64;
        }
        for (k, v) in per {
            println!("{k:32} {v}");
        }
        println!("total evaluations: {}", plan.total);
        std::process::exit(0);
    }
    if let Err(m) = corpus_selfcheck(&plan) {
        eprintln!("MACHINERY: corpus self-check failed: {m}");
        std::process::exit(2);
    }
    let exe = std::env::current_exe().expect("current_exe");
    // units: block-aligned, small enough for dynamic balancing, large enough to amortise start-up
    let target_units = (ctx.threads as u64) * 24;
    let unit = ((plan.total / target_units.max(1)) / BLOCK + 1) * BLOCK;
    let n_units = plan.total.div_ceil(unit);
    let next = AtomicU64::new(0);
    let merged = Mutex::new((Stats::new(), 0u64));
    let capped = AtomicU64::new(0);
    std::thread::scope(|s| {
        for _ in 0..ctx.threads.max(1) {
            s.spawn(|| {
                let mut local = Stats::new();
                let mut peak = 0u64;
                loop {
                    let u = next.fetch_add(1, Ordering::Relaxed);
                    if u >= n_units {
                        break;
                    }
                    if ctx.out_of_time() {
                        capped.fetch_add(1, Ordering::Relaxed);
                        continue;
                    }
                    let lo = u * unit;
                    let hi = ((u + 1) * unit).min(plan.total);
                    local.merge(run_unit(ctx, &plan, &exe, lo, hi, &mut peak));
                }
                let mut g = merged.lock().unwrap();
                g.0.merge(local);
                g.1 = g.1.max(peak);
            });
        }
    });
    let (mut st, peak) = merged.into_inner().unwrap();
    let c = capped.load(Ordering::Relaxed);
    if c > 0 {
        st.cap(format!("time budget hit: {c} of {n_units} work units ({} evaluations each) not run", unit));
    }
    // coverage extras
    let mut per_fmt: BTreeMap<&str, (usize, usize, usize)> = BTreeMap::new();
    for e in &plan.corpus {
        let x = per_fmt.entry(e.fmt.name()).or_insert((0, usize::MAX, 0));
        x.0 += 1;
        x.1 = x.1.min(e.bytes.len());
        x.2 = x.2.max(e.bytes.len());
    }
    st.extra.insert("corpus".into(), json!(per_fmt.iter().map(|(k, v)| (k.to_string(), json!({"entries": v.0, "min_len": v.1, "max_len": v.2}))).collect::<vcore::serde_json::Map<_, _>>()));
    st.extra.insert("corpus_entries".into(), json!(plan.corpus.iter().map(|e| json!({"name": e.name, "len": e.bytes.len(), "readers": e.readers.iter().map(|r| r.name()).collect::<Vec<_>>()})).collect::<Vec<_>>()));
    st.extra.insert("planned_evaluations".into(), json!(plan.total));
    st.extra.insert("max_peak_alloc_bytes_of_completed_reads".into(), json!(peak));
    st.extra.insert("alloc_bound".into(), json!("max(64 MiB, 4096 x input length) bytes held by one read"));
    st.extra.insert("violation_occurrences".into(), json!(st.viol_counts));
    let level = Level {
        category: "fault_enumeration",
        rule: "an evaluation is one (corpus entry, mutation, reader entry point) descriptor; distinct by construction; non-trivial iff the mutated bytes differ from the pristine corpus entry (different descriptors may still produce identical bytes, e.g. a window overwrite that equals a bit flip)".into(),
        assumptions: vec![
            "corpus inputs are 1..1500 bytes produced by the library's own writers; inputs larger than the corpus and multi-field coordinated corruptions other than splices and length windows are not explored".into(),
            "each evaluation runs in a worker subprocess of the engine (RLIMIT_AS 4 GiB, 20 s watchdog per case); a refused allocation ends the worker and is attributed to the case in flight".into(),
            "allocation is metered per reading thread; the readers under test do not spawn threads".into(),
            "validity oracle = RecordBatch/schema agreement + ArrayData::validate_full + union type-id/offset check; semantic equality with the pristine decode is not required (any valid data is acceptable)".into(),
        ],
        exhaustive_space: format!(
            "{} corpus entries x operators [{} | truncate(all lengths) | 2/4/8-byte LE windows x value menu | LEB128/zigzag varint starts x value menu (parquet, avro)] x readers; all ordered same-format pairs x structural boundary pairs (splices); Variant: all byte strings of length <= 2 as value against each distinct corpus metadata and as metadata against 4 corpus values",
            plan.corpus.len(),
            if ctx.quick() { "every single-bit flip" } else { "every byte x all 255 other values" }
        ),
    };
    vcore::finish(ctx, level, st)
}

// ------------------------------------------------------------------------------------------------
// replay

fn case_entry<'a>(plan: &'a Plan, case: &Value) -> Option<(&'a Entry, Rd)> {
    let name = case["entry"].as_str()?;
    let e = plan.corpus.iter().find(|e| e.name == name)?;
    let rname = case["reader"].as_str()?;
    let all = [
        Rd::IpcStreamReader, Rd::IpcStreamDecoder, Rd::IpcFileReader, Rd::FlightToBatches, Rd::FlightDecoder, Rd::PqMeta, Rd::PqArrow, Rd::PqArrowIdx, Rd::PqArrowSel, Rd::AvroOcfReader, Rd::AvroDecoder, Rd::CsvReader, Rd::CsvInfer,
        Rd::JsonReader, Rd::JsonInfer, Rd::VariantTryNew,
    ];
    let rd = all.into_iter().find(|r| r.name() == rname)?;
    Some((e, rd))
}

fn replay_child(ctx: &Ctx) -> ! {
    meter::RESOLVE.store(true, Ordering::Relaxed);
    let path = arg_after(ctx, "--replay-child", 1).expect("replay file");
    let txt = std::fs::read_to_string(&path).expect("read replay");
    let v: Value = vcore::serde_json::from_str(&txt).expect("replay json");
    let case = v.get("case").cloned().unwrap_or(v);
    let plan = plan(true);
    let Some((e, rd)) = case_entry(&plan, &case) else {
        println!("R {}", json!({"machinery": "unknown entry or reader in replay case"}));
        println!("DONE");
        std::process::exit(0);
    };
    let bytes = unhex(case["input_hex"].as_str().unwrap_or(""));
    let segs: Vec<usize> = case["segs"].as_array().map(|a| a.iter().map(|x| x.as_u64().unwrap_or(0) as usize).collect()).unwrap_or_else(|| vec![bytes.len()]);
    println!("@ 0");
    meter::CASE_IDX.store(0, Ordering::Relaxed);
    let ev = evaluate(rd, e, &bytes, &segs, None);
    println!("R {}", json!({"class": ev.class, "violation": ev.violation.as_ref().map(|v| json!({"fingerprint": v.0, "message": v.1})), "peak_alloc": ev.peak}));
    println!("DONE");
    std::process::exit(0);
}

fn replay(ctx: &Ctx) -> ! {
    let path = ctx.replay.clone().unwrap();
    let case = vcore::load_replay(ctx).unwrap();
    println!("replay case: entry={} reader={} mutation={} input_len={}", case["entry"], case["reader"], case["mutation"], case["input_len"]);
    println!("expectation: Err, or Ok with valid arrays; no panic; result within {} s; <= {} bytes held", WATCHDOG.as_secs(), alloc_bound(case["input_len"].as_u64().unwrap_or(0) as usize));
    let exe = std::env::current_exe().expect("current_exe");
    let args: Vec<String> = vec!["C08".into(), "--replay-child".into(), path.display().to_string()];
    let mut res: Option<Value> = None;
    let mut alloc: Option<String> = None;
    let end = run_worker(&exe, &args, Some(RLIMIT_AS), WATCHDOG, |l| {
        if let Some(j) = l.strip_prefix("R ") {
            res = vcore::serde_json::from_str(j).ok();
        } else if let Some(a) = l.strip_prefix("A ") {
            alloc = Some(a.to_string());
        }
    });
    let bad = match end {
        WorkerEnd::Completed => match res {
            Some(r) if r.get("machinery").is_some() => {
                println!("replay outcome: MACHINERY {}", r["machinery"]);
                std::process::exit(2)
            }
            Some(r) => {
                println!("replay outcome: class={} peak_alloc={} violation={}", r["class"], r["peak_alloc"], r["violation"]);
                !r["violation"].is_null()
            }
            None => {
                println!("replay outcome: no result line");
                std::process::exit(2)
            }
        },
        WorkerEnd::Died { desc, .. } => {
            match alloc {
                Some(a) => println!("replay outcome: ALLOCATION REFUSED (idx requested held site) = {a}"),
                None => println!("replay outcome: reader process DIED: {desc}"),
            }
            true
        }
        WorkerEnd::Hung { .. } => {
            println!("replay outcome: HANG (no result within {} s)", WATCHDOG.as_secs());
            true
        }
    };
    std::process::exit(if bad { 1 } else { 0 });
}
