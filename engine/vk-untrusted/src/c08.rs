//! C08 — untrusted bytes yield an error or valid data (never an invalid array, a panic, a hang or an
//! allocation unrelated to the input size).
//!
//! Parent: builds the corpus, lays out the evaluation index space, runs worker subprocesses of this
//! binary over block-aligned index ranges, attributes deaths / hangs / refused allocations to the case
//! in flight, merges the block results and writes the evidence.
//! Worker (`--worker lo hi [--skip a,b,..]`): runs the cases of its range in-process under the
//! allocation meter and `vcore::catch`, prints `@ idx` before each case and one `S <json>` line per
//! completed block.
use crate::corpus::{self, Entry, Fmt, Rd};
use crate::meter;
use crate::mutate::{self, Mutated, Op};
use crate::readers::{self, Outcome};
use arrow_array::RecordBatch;
use std::collections::{BTreeMap, BTreeSet};
use std::sync::Mutex;
use std::sync::atomic::{AtomicU64, Ordering};
use std::time::Duration;
use vcore::serde_json::{Value, json};
use vcore::sub::{WorkerEnd, run_worker};
use vcore::{Ctx, Level, Stats, catch};

pub const BLOCK: u64 = 512;
const MIB: usize = 1 << 20;
const RLIMIT_AS: u64 = 4 << 30;
/// parent-side wall-clock backstop per case (a deterministic spin is caught much earlier by the
/// worker's CPU-time monitor; wall-clock time says little on a loaded machine)
const WALL_WATCHDOG: Duration = Duration::from_secs(180);
/// CPU time one case may consume in the sweep before it is set aside as a hang suspect
const CPU_LIMIT_SHORT_MS: u64 = 250;
/// CPU time a hang suspect gets when it is re-run alone
const CPU_LIMIT_LONG_MS: u64 = 10_000;
const CPU_EXIT: i32 = 87;

/// bytes one read may hold: max(64 MiB, 4096 x input length) plus 1 MiB of slack, so that the
/// pre-allocation cap the IPC stream reader documents (exactly 64 MiB, `MAX_PREALLOC_BYTES`) together
/// with the reader's small bookkeeping allocations stays inside the bound.
pub fn alloc_bound(input_len: usize) -> usize {
    (64 * MIB).max(4096 * input_len) + MIB
}

#[derive(Clone, Debug)]
pub enum JobKind {
    Mut { entry: usize, op: Op },
    Splice { a: usize, b: usize },
    /// every value byte string of length <= 2 against the metadata of `entry`
    ShortValue { entry: usize },
    /// every metadata byte string of length <= 2 against the value of `entry`
    ShortMeta { entry: usize },
}

#[derive(Clone, Debug)]
pub struct Job {
    pub kind: JobKind,
    pub n_mut: u64,
    pub readers: Vec<Rd>,
    pub start: u64,
    pub sub: String,
}

pub struct Plan {
    pub corpus: Vec<Entry>,
    pub jobs: Vec<Job>,
    pub total: u64,
}

/// quick-tier corpus subset (the thorough tier uses every entry)
const QUICK_ENTRIES: &[&str] = &[
    "ipc-stream/prim", "ipc-stream/str", "ipc-stream/dict", "ipc-stream/views", "ipc-stream/list", "ipc-stream/struct", "ipc-stream/union", "ipc-stream/lz4", "ipc-stream/zstd", "ipc-stream/schema-only",
    "ipc-file/prim", "ipc-file/str", "ipc-file/dict", "ipc-file/views", "ipc-file/list", "ipc-file/struct", "ipc-file/union", "ipc-file/lz4", "ipc-file/zstd", "ipc-file/schema-only",
    "flight/prim", "flight/dict", "flight/views",
    "parquet/plain-v1-uncomp", "parquet/dict-v1-snappy", "parquet/plain-v2-zstd", "parquet/delta-v2-uncomp", "parquet/bss-v1-lz4raw", "parquet/rle-bool-v2-gzip", "parquet/nested-list-v1-brotli", "parquet/struct-map-v2-snappy",
    "parquet/pageidx-v1-uncomp", "parquet/views-arrowmeta-v1", "parquet/dictcols-runs-arrowmeta-v1", "parquet/views-delta-arrowmeta-v2", "parquet/empty-v1",
    "avro-ocf/simple-null", "avro-ocf/simple-deflate", "avro-ocf/simple-snappy", "avro-ocf/nested-null",
];
fn in_quick(e: &Entry) -> bool {
    matches!(e.fmt, Fmt::AvroSoe | Fmt::Csv | Fmt::Json | Fmt::Variant) || QUICK_ENTRIES.contains(&e.name.as_str())
}

pub fn plan(thorough: bool) -> Plan {
    let corpus = corpus::build();
    let mut jobs = vec![];
    let mut start = 0u64;
    let mut push = |kind: JobKind, n_mut: u64, readers: Vec<Rd>, sub: String| {
        if n_mut == 0 || readers.is_empty() {
            return;
        }
        let n = n_mut * readers.len() as u64;
        jobs.push(Job { kind, n_mut, readers, start, sub });
        start += n;
    };
    for (i, e) in corpus.iter().enumerate() {
        if !thorough && !in_quick(e) {
            continue;
        }
        for op in mutate::ops_for(e.fmt, thorough) {
            push(JobKind::Mut { entry: i, op }, mutate::count(e, op), e.readers.clone(), format!("{}/{}", e.fmt.name(), op.name()));
        }
    }
    // cross-splices: every ordered pair of distinct same-format entries
    for (i, a) in corpus.iter().enumerate() {
        for (j, b) in corpus.iter().enumerate() {
            if i == j || a.fmt != b.fmt || (!thorough && !(in_quick(a) && in_quick(b))) {
                continue;
            }
            let readers: Vec<Rd> = a.readers.iter().copied().filter(|r| b.readers.contains(r)).collect();
            push(JobKind::Splice { a: i, b: j }, mutate::splice_count(a, b), readers, format!("{}/splice", a.fmt.name()));
        }
    }
    // Variant: exhaustive short values / metadata against the distinct corpus metadata / values
    let mut seen_meta: BTreeSet<Vec<u8>> = BTreeSet::new();
    for (i, e) in corpus.iter().enumerate() {
        if e.fmt != Fmt::Variant {
            continue;
        }
        let meta = e.bytes[..e.segs[0]].to_vec();
        if seen_meta.insert(meta) {
            push(JobKind::ShortValue { entry: i }, mutate::SHORT_STRINGS, e.readers.clone(), "variant/short-values".into());
        }
    }
    for (i, e) in corpus.iter().enumerate() {
        if e.fmt != Fmt::Variant {
            continue;
        }
        let menu: &[&str] = if thorough { &["variant/object", "variant/list", "variant/int8", "variant/string-short"] } else { &["variant/object", "variant/int8"] };
        if menu.contains(&e.name.as_str()) {
            push(JobKind::ShortMeta { entry: i }, mutate::SHORT_STRINGS, e.readers.clone(), "variant/short-metadata".into());
        }
    }
    Plan { corpus, jobs, total: start }
}

impl Plan {
    pub fn locate(&self, idx: u64) -> (usize, u64, usize) {
        let j = match self.jobs.binary_search_by(|j| j.start.cmp(&idx)) {
            Ok(j) => j,
            Err(j) => j - 1,
        };
        let job = &self.jobs[j];
        let local = idx - job.start;
        let nr = job.readers.len() as u64;
        (j, local / nr, (local % nr) as usize)
    }
    /// the mutated input of (job, k) plus the entry that supplies reader context and the pristine bytes
    pub fn input(&self, j: usize, k: u64) -> (Mutated, usize) {
        match &self.jobs[j].kind {
            JobKind::Mut { entry, op } => (mutate::apply(&self.corpus[*entry], *op, k), *entry),
            JobKind::Splice { a, b } => (mutate::splice(&self.corpus[*a], &self.corpus[*b], k), *a),
            JobKind::ShortValue { entry } => {
                let e = &self.corpus[*entry];
                let mut bytes = e.bytes[..e.segs[0]].to_vec();
                let v = mutate::short_string(k);
                bytes.extend_from_slice(&v);
                let n = bytes.len();
                (Mutated { bytes, segs: vec![e.segs[0], n], desc: format!("metadata of {} with value bytes {v:02x?}", e.name) }, *entry)
            }
            JobKind::ShortMeta { entry } => {
                let e = &self.corpus[*entry];
                let m = mutate::short_string(k);
                let mut bytes = m.clone();
                bytes.extend_from_slice(&e.bytes[e.segs[0]..]);
                let n = bytes.len();
                (Mutated { bytes, segs: vec![m.len(), n], desc: format!("value of {} with metadata bytes {m:02x?}", e.name) }, *entry)
            }
        }
    }
    pub fn case_json(&self, idx: u64, tier: &str) -> Value {
        let (j, k, r) = self.locate(idx);
        let (m, ei) = self.input(j, k);
        let job = &self.jobs[j];
        json!({
            "idx": idx,
            "tier": tier,
            "sub": job.sub,
            "entry": self.corpus[ei].name,
            "reader": job.readers[r].name(),
            "mutation": m.desc,
            "k": k,
            "input_len": m.bytes.len(),
            "input_hex": hex(&m.bytes),
            "segs": m.segs,
        })
    }
}

pub fn hex(b: &[u8]) -> String {
    let mut s = String::with_capacity(b.len() * 2);
    for x in b {
        s.push_str(&format!("{x:02x}"));
    }
    s
}
pub fn unhex(s: &str) -> Vec<u8> {
    (0..s.len() / 2).map(|i| u8::from_str_radix(&s[2 * i..2 * i + 2], 16).unwrap_or(0)).collect()
}

// ------------------------------------------------------------------------------------------------
// one evaluation

pub struct Eval {
    /// outcome class for the histogram
    pub class: String,
    /// (fingerprint, message) when the oracle is violated
    pub violation: Option<(String, String)>,
    pub peak: usize,
}

type Pristine = BTreeMap<(usize, Rd), (Vec<RecordBatch>, String)>;

pub fn evaluate(rd: Rd, e: &Entry, bytes: &[u8], segs: &[usize], pristine: Option<&(Vec<RecordBatch>, String)>) -> Eval {
    let bound = alloc_bound(bytes.len());
    let r = catch(|| {
        meter::arm(bound);
        let o = readers::run(rd, e, bytes, segs);
        let peak = meter::disarm();
        (o, peak)
    });
    match r {
        Err(p) => {
            meter::disarm();
            let fp = format!("c08:{}:{}", rd.name(), panic_fp(&p));
            Eval { class: "panic".into(), violation: Some((fp, format!("panic at {}:{}: {}", p.file, p.line, p.msg.chars().take(300).collect::<String>()))), peak: 0 }
        }
        Ok((Outcome::Err(c), peak)) => Eval { class: format!("err:{c}"), violation: None, peak },
        Ok((Outcome::Invalid(fp, msg), peak)) => Eval { class: "invalid".into(), violation: Some((sanitize(&format!("wf:c08:{}:{}", rd.name(), fp)), msg)), peak },
        Ok((Outcome::Ok { batches, note }, peak)) => {
            let class = match pristine {
                Some((pb, pn)) => {
                    let same = catch(|| readers::same_batches(pb, &batches) && *pn == note).unwrap_or(false);
                    if same { "ok-same" } else { "ok-changed" }
                }
                None => "ok",
            };
            let class = if rd == Rd::VariantTryNew { format!("{class}:{}", note.split(' ').next().unwrap_or("")) } else { class.to_string() };
            Eval { class, violation: None, peak }
        }
    }
}

/// call-site fingerprint of a panic: repo-relative (or registry-relative, version stripped) file + message
pub fn panic_fp(p: &vcore::PanicInfo) -> String {
    let mut file = p.file.clone();
    if let Some(pos) = file.find("/registry/src/") {
        // ~/.cargo/registry/src/<index>/<crate>-<version>/src/x.rs -> <crate>-#/src/x.rs
        let rest = &file[pos + "/registry/src/".len()..];
        let rest = rest.split_once('/').map(|x| x.1).unwrap_or(rest);
        file = format!("dep:{}", vcore::strip_digits(rest));
    } else if let Some(pos) = file.find("/rustc/") {
        let rest = &file[pos + "/rustc/".len()..];
        let rest = rest.split_once('/').map(|x| x.1).unwrap_or(rest);
        file = format!("std:{rest}");
    }
    if let Some(pos) = file.find("/repo/") {
        // a scratch copy of the repository reports the same call sites as /repo
        file = format!("/repo/{}", &file[pos + "/repo/".len()..]);
    }
    let q = vcore::PanicInfo { file, line: p.line, msg: p.msg.clone() };
    sanitize(&q.fingerprint())
}

/// one line, single spaces: fingerprints end up in known_findings.json and in report lines
pub fn sanitize(s: &str) -> String {
    let mut out = String::new();
    let mut sp = false;
    for c in s.chars() {
        if c.is_whitespace() || c.is_control() {
            if !sp {
                out.push(' ');
            }
            sp = true;
        } else {
            out.push(c);
            sp = false;
        }
    }
    out.trim().to_string()
}

fn pristine_of(plan: &Plan) -> Pristine {
    let mut m = Pristine::new();
    for (i, e) in plan.corpus.iter().enumerate() {
        for &rd in &e.readers {
            if let Ok(Outcome::Ok { batches, note }) = catch(|| readers::run(rd, e, &e.bytes, &e.segs)) {
                m.insert((i, rd), (batches, note));
            }
        }
    }
    m
}

/// every corpus entry must decode cleanly with each of its readers, else the corpus is broken
fn corpus_selfcheck(plan: &Plan) -> Result<(), String> {
    for e in &plan.corpus {
        for &rd in &e.readers {
            match catch(|| readers::run(rd, e, &e.bytes, &e.segs)) {
                Ok(Outcome::Ok { batches, note }) => {
                    let rows: usize = batches.iter().map(|b| b.num_rows()).sum();
                    let expect_rows = !matches!(rd, Rd::PqMeta | Rd::VariantTryNew) && !e.name.contains("empty") && !e.name.contains("schema-only");
                    if expect_rows && rows == 0 {
                        return Err(format!("{} / {}: pristine input decodes to 0 rows ({note})", e.name, rd.name()));
                    }
                }
                Ok(Outcome::Err(c)) => return Err(format!("{} / {}: pristine input is rejected: {c}", e.name, rd.name())),
                Ok(Outcome::Invalid(fp, m)) => return Err(format!("{} / {}: pristine input fails the oracle: {fp}: {m}", e.name, rd.name())),
                Err(p) => return Err(format!("{} / {}: pristine input panics: {p:?}", e.name, rd.name())),
            }
        }
    }
    Ok(())
}

// ------------------------------------------------------------------------------------------------
// worker

#[derive(Default)]
struct BlockAcc {
    subs: BTreeMap<String, (u64, u64)>,
    out: BTreeMap<String, u64>,
    viol: BTreeMap<String, (u64, u64, String, Value)>, // fp -> (count, min order, msg, case)
    peak: usize,
    samples: Vec<(String, Value)>,
}

impl BlockAcc {
    fn to_json(&self, lo: u64, hi: u64) -> Value {
        json!({
            "lo": lo, "hi": hi,
            "subs": self.subs.iter().map(|(k, v)| (k.clone(), json!([v.0, v.1]))).collect::<vcore::serde_json::Map<_, _>>(),
            "out": self.out,
            "viol": self.viol.iter().map(|(fp, v)| json!({"fp": fp, "n": v.0, "order": v.1, "msg": v.2, "case": v.3})).collect::<Vec<_>>(),
            "peak": self.peak,
            "samples": self.samples.iter().map(|(s, c)| json!({"sub": s, "case": c})).collect::<Vec<_>>(),
        })
    }
}

pub fn order_key(entry_len: usize, idx: u64) -> u64 {
    ((entry_len as u64) << 40) | (idx & ((1 << 40) - 1))
}

/// CPU clock of the thread that currently runs cases (runner threads change after a refusal)
static RUNNER_CLOCK: std::sync::atomic::AtomicI32 = std::sync::atomic::AtomicI32::new(-1);

fn register_runner_clock() {
    let mut cid: libc::clockid_t = 0;
    if unsafe { libc::pthread_getcpuclockid(libc::pthread_self(), &mut cid) } != 0 {
        eprintln!("MACHINERY: pthread_getcpuclockid failed");
        std::process::exit(2);
    }
    RUNNER_CLOCK.store(cid, Ordering::Release);
}

/// Watches the CPU time the runner thread spends inside one case; ends the process with `H idx ms`
/// when it exceeds the limit (a deterministic spin burns CPU, a loaded machine only burns wall-clock).
fn spawn_cpu_monitor(limit_ms: u64) {
    register_runner_clock();
    std::thread::spawn(move || {
        let cpu_ms = || {
            let cid = RUNNER_CLOCK.load(Ordering::Acquire);
            let mut ts = libc::timespec { tv_sec: 0, tv_nsec: 0 };
            unsafe { libc::clock_gettime(cid, &mut ts) };
            ts.tv_sec as u64 * 1000 + ts.tv_nsec as u64 / 1_000_000
        };
        let mut seen = u64::MAX;
        let mut since = 0u64;
        loop {
            std::thread::sleep(Duration::from_millis(50));
            let idx = meter::CASE_IDX.load(Ordering::Acquire);
            let now = cpu_ms();
            if idx != seen {
                seen = idx;
                since = now;
                continue;
            }
            if idx != u64::MAX && now.saturating_sub(since) > limit_ms && flush_partial(idx) {
                println!("H {idx} {}", now - since);
                unsafe { libc::_exit(CPU_EXIT) }
            }
        }
    });
}

/// results of the block in progress: (block start, accumulator). Locked by the runner thread only
/// between cases, so the refusal path (runner inside the allocator during a case) and the CPU monitor
/// thread can take it to flush a partial block.
static ACC: Mutex<Option<(u64, BlockAcc)>> = Mutex::new(None);

/// Prints the results of the cases completed so far in the current block as an `S` line ending at
/// `idx` (exclusive) and keeps the lock forever (the process is about to end). Returns false (and
/// prints nothing) if `idx` is no longer the case in flight.
pub fn flush_partial(idx: u64) -> bool {
    let mut g = match ACC.lock() {
        Ok(g) => g,
        Err(p) => p.into_inner(),
    };
    if meter::CASE_IDX.load(Ordering::Acquire) != idx {
        return false;
    }
    if let Some((lo, acc)) = g.take() {
        if idx >= lo {
            println!("S {}", acc.to_json(lo, idx));
        }
    }
    std::mem::forget(g);
    true
}

struct Shared {
    plan: Plan,
    pristine: Pristine,
    hi: u64,
    skip: BTreeSet<u64>,
    tier: &'static str,
    careful: bool,
}
static SHARED: std::sync::OnceLock<Shared> = std::sync::OnceLock::new();
/// runner threads parked inside a refused allocation (their memory and stack stay allocated)
static PARKED: AtomicU64 = AtomicU64::new(0);
const MAX_PARKED: u64 = 256;
/// heap bytes held by parked threads (never freed) after which the worker also restarts
static LEAKED: AtomicU64 = AtomicU64::new(0);
const MAX_LEAKED: u64 = 512 << 20;
const RUNNER_STACK: usize = 4 << 20;
pub const VOLUNTARY_EXIT: i32 = 88;

/// Called by the allocation meter (on the runner thread, inside the allocator, meter disarmed) when a
/// request is refused during case `idx`. The refusing thread can neither return (the allocation must
/// not succeed) nor unwind (an allocator must not), so it reports the refusal, hands the remaining
/// cases to a fresh runner thread and parks forever. After `MAX_PARKED` parked threads the worker
/// flushes its block and exits so that the parent starts a fresh process.
pub fn on_refusal(idx: u64, requested: usize, held: isize, token: &str) -> ! {
    println!("A {idx} {requested} {held} {token}");
    let parked = PARKED.fetch_add(1, Ordering::Relaxed) + 1;
    // `held` includes the refused request itself, which was not served
    let leaked = LEAKED.fetch_add((held.max(0) as u64).saturating_sub(requested as u64), Ordering::Relaxed);
    if SHARED.get().is_none() || parked >= MAX_PARKED || leaked >= MAX_LEAKED {
        // single-case modes (resolve / replay) or too many parked threads: leave the process
        if SHARED.get().is_some() {
            // the refused case is accounted for by the parent: commit the block up to and including it
            let mut g = match ACC.lock() {
                Ok(g) => g,
                Err(p) => p.into_inner(),
            };
            if let Some((lo, acc)) = g.take() {
                println!("S {}", acc.to_json(lo, idx + 1));
            }
            std::mem::forget(g);
            unsafe { libc::_exit(VOLUNTARY_EXIT) }
        }
        unsafe { libc::_exit(meter::REFUSE_EXIT) }
    }
    meter::CASE_IDX.store(u64::MAX, Ordering::Release);
    let next = idx + 1;
    let spawned = std::thread::Builder::new().stack_size(RUNNER_STACK).spawn(move || runner(next));
    if spawned.is_err() {
        eprintln!("MACHINERY: cannot spawn a runner thread");
        unsafe { libc::_exit(2) }
    }
    loop {
        std::thread::park();
    }
}

fn end_of_block(idx: u64, hi: u64) {
    if (idx + 1) % BLOCK == 0 || idx + 1 == hi {
        let mut g = ACC.lock().unwrap();
        let (blo, acc) = g.take().unwrap();
        println!("S {}", acc.to_json(blo, idx + 1));
        *g = Some((idx + 1, BlockAcc::default()));
    }
}

/// Runs the cases `start..hi` on the current thread.
fn runner(start: u64) -> ! {
    register_runner_clock();
    let sh = SHARED.get().expect("shared worker state");
    let plan = &sh.plan;
    // a refused case ends its block bookkeeping here (the refusing thread could not do it)
    if start > 0 && start <= sh.hi && PARKED.load(Ordering::Relaxed) > 0 {
        end_of_block(start - 1, sh.hi);
    }
    let mut cached: Option<(usize, u64, Mutated, usize)> = None;
    for idx in start..sh.hi {
        if !sh.skip.contains(&idx) {
            let (j, k, r) = plan.locate(idx);
            if cached.as_ref().map(|c| (c.0, c.1)) != Some((j, k)) {
                let (m, ei) = plan.input(j, k);
                cached = Some((j, k, m, ei));
            }
            let (_, _, m, ei) = cached.as_ref().unwrap();
            let job = &plan.jobs[j];
            let rd = job.readers[r];
            let e = &plan.corpus[*ei];
            // the in-flight marker is only needed to attribute a crash; refusals and CPU-limit exits
            // report their own index. Outside careful mode it is printed every 64th case and a crash
            // makes the parent re-run the block in careful mode.
            if sh.careful || idx % 64 == 0 || idx == start {
                println!("@ {idx}");
            }
            meter::CASE_IDX.store(idx, Ordering::Release);
            let ev = evaluate(rd, e, &m.bytes, &m.segs, sh.pristine.get(&(*ei, rd)));
            meter::CASE_IDX.store(u64::MAX, Ordering::Release);
            let nontrivial = m.bytes != e.bytes;
            let mut g = ACC.lock().unwrap();
            let acc = &mut g.as_mut().unwrap().1;
            let s = acc.subs.entry(job.sub.clone()).or_default();
            s.0 += 1;
            s.1 += nontrivial as u64;
            *acc.out.entry(format!("{}|{}", rd.name(), ev.class)).or_default() += 1;
            acc.peak = acc.peak.max(ev.peak);
            if idx % 100_003 == 0 && acc.samples.len() < 2 {
                let mut c = plan.case_json(idx, sh.tier);
                c["outcome"] = json!(ev.class);
                c["peak_alloc"] = json!(ev.peak);
                acc.samples.push((job.sub.clone(), c));
            }
            if let Some((fp, msg)) = ev.violation {
                let order = order_key(e.bytes.len(), idx);
                match acc.viol.get_mut(&fp) {
                    Some(v) => {
                        v.0 += 1;
                        if order < v.1 {
                            *v = (v.0, order, msg, plan.case_json(idx, sh.tier));
                        }
                    }
                    None => {
                        acc.viol.insert(fp, (1, order, msg, plan.case_json(idx, sh.tier)));
                    }
                }
            }
        }
        end_of_block(idx, sh.hi);
    }
    println!("DONE");
    std::process::exit(0);
}

fn worker(ctx: &Ctx, lo: u64, hi: u64, skip: &BTreeSet<u64>, cpu_limit_ms: u64) -> ! {
    // one malloc arena: parked runner threads must not each reserve a 64 MiB per-thread arena
    unsafe { libc::mallopt(libc::M_ARENA_MAX, 1) };
    let plan = plan(!ctx.quick());
    let pristine = pristine_of(&plan);
    let hi = hi.min(plan.total);
    *ACC.lock().unwrap() = Some((lo, BlockAcc::default()));
    if !ctx.has_flag("--resolve") {
        let _ = SHARED.set(Shared { plan, pristine, hi, skip: skip.clone(), tier: if ctx.quick() { "quick" } else { "thorough" }, careful: ctx.has_flag("--careful") });
        // the first runner gets the same stack size as its successors
        let h = std::thread::Builder::new().stack_size(RUNNER_STACK).spawn(move || {
            spawn_cpu_monitor(cpu_limit_ms);
            runner(lo)
        });
        match h {
            Ok(h) => {
                let _ = h.join();
                // the first runner parked after a refusal: a successor finishes the range and exits
                loop {
                    std::thread::park();
                }
            }
            Err(_) => {
                eprintln!("MACHINERY: cannot spawn a runner thread");
                std::process::exit(2);
            }
        }
    }
    // resolve mode: one case, symbolised refusal, exits inside the meter
    spawn_cpu_monitor(cpu_limit_ms);
    let (j, k, r) = plan.locate(lo);
    let (m, ei) = plan.input(j, k);
    let rd = plan.jobs[j].readers[r];
    println!("@ {lo}");
    meter::CASE_IDX.store(lo, Ordering::Release);
    let ev = evaluate(rd, &plan.corpus[ei], &m.bytes, &m.segs, None);
    println!("R {}", json!({"class": ev.class}));
    println!("DONE");
    std::process::exit(0);
}

// ------------------------------------------------------------------------------------------------
// parent

fn merge_block(st: &mut Stats, v: &Value, peak: &mut u64) {
    if let Some(subs) = v["subs"].as_object() {
        for (k, c) in subs {
            st.add(k, c[0].as_u64().unwrap_or(0), c[1].as_u64().unwrap_or(0));
        }
    }
    if let Some(out) = v["out"].as_object() {
        for (k, c) in out {
            st.outcome_n(k, c.as_u64().unwrap_or(0));
        }
    }
    if let Some(viol) = v["viol"].as_array() {
        for x in viol {
            let fp = x["fp"].as_str().unwrap_or("?").to_string();
            let n = x["n"].as_u64().unwrap_or(1);
            let case = x["case"].clone();
            st.violate(x["order"].as_u64().unwrap_or(0), fp.clone(), x["msg"].as_str().unwrap_or(""), || case);
            if n > 1 {
                *st.viol_counts.entry(fp).or_default() += n - 1;
            }
        }
    }
    if let Some(s) = v["samples"].as_array() {
        for x in s {
            let c = x["case"].clone();
            st.sample(x["sub"].as_str().unwrap_or("?"), || c);
        }
    }
    *peak = (*peak).max(v["peak"].as_u64().unwrap_or(0));
}


/// A case that ended its worker instead of returning.
#[derive(Clone, Debug)]
enum Abnormal {
    /// the allocation meter refused a request: (requested, held, raw-or-resolved site token)
    Alloc { req: u64, held: i64, token: String },
    /// CPU-time limit of the sweep hit (to be confirmed with the long limit)
    CpuLimit { ms: u64 },
    /// wall-clock watchdog of the parent expired
    WallLimit,
    /// any other death (signal / exit code, stderr tail)
    Died { desc: String },
}

struct UnitResult {
    st: Stats,
    /// cases that hit the short CPU limit: to be re-run with the long limit
    suspects: Vec<u64>,
}

/// Runs one worker over [lo, hi) with `skip`; returns committed stats, the committed upper bound, the
/// refusals inside committed blocks and how the worker ended for the case in flight (if it did not
/// complete).
fn run_once(ctx: &Ctx, exe: &std::path::Path, lo: u64, hi: u64, skip: &BTreeSet<u64>, cpu_limit_ms: u64, careful: bool, peak: &mut u64) -> Once {
    let tier = if ctx.quick() { "quick" } else { "thorough" };
    let mut args: Vec<String> = vec!["C08".into(), "--tier".into(), tier.into(), "--worker".into(), lo.to_string(), hi.to_string(), "--cpu-limit".into(), cpu_limit_ms.to_string()];
    let sk: Vec<String> = skip.iter().filter(|&&s| s >= lo && s < hi).map(|s| s.to_string()).collect();
    if !sk.is_empty() {
        args.push("--skip".into());
        args.push(sk.join(","));
    }
    if careful {
        args.push("--careful".into());
    }
    let mut committed = lo;
    let mut st = Stats::new();
    // refusals reported since the last committed block (committed together with it)
    let mut pending: Vec<(u64, Abnormal)> = vec![];
    let mut allocs: Vec<(u64, Abnormal)> = vec![];
    let mut last_cpu: Option<(u64, u64)> = None;
    let mut garbled = false;
    let mut need_careful = false;
    let end = run_worker(exe, &args, Some(RLIMIT_AS), WALL_WATCHDOG, |l| {
        if let Some(j) = l.strip_prefix("S ") {
            match vcore::serde_json::from_str::<Value>(j) {
                Ok(v) => {
                    merge_block(&mut st, &v, peak);
                    committed = v["hi"].as_u64().unwrap_or(committed);
                    let (done, rest): (Vec<_>, Vec<_>) = std::mem::take(&mut pending).into_iter().partition(|(i, _)| *i < committed);
                    allocs.extend(done);
                    pending = rest;
                }
                Err(_) => garbled = true,
            }
        } else if let Some(a) = l.strip_prefix("A ") {
            let mut it = a.splitn(4, ' ');
            let idx = it.next().and_then(|x| x.parse().ok()).unwrap_or(u64::MAX);
            let req = it.next().and_then(|x| x.parse().ok()).unwrap_or(0);
            let held = it.next().and_then(|x| x.parse().ok()).unwrap_or(0);
            let token = it.next().unwrap_or("unknown").trim().to_string();
            pending.push((idx, Abnormal::Alloc { req, held, token }));
        } else if let Some(h) = l.strip_prefix("H ") {
            let mut it = h.split(' ');
            let idx = it.next().and_then(|x| x.parse().ok()).unwrap_or(u64::MAX);
            let ms = it.next().and_then(|x| x.parse().ok()).unwrap_or(0);
            last_cpu = Some((idx, ms));
        } else if !l.is_empty() && !l.starts_with("R ") {
            garbled = true;
        }
    });
    let (last, glitch) = match end {
        WorkerEnd::Completed => {
            committed = hi;
            (None, garbled)
        }
        WorkerEnd::Hung { .. } if !careful => {
            need_careful = true;
            (None, false)
        }
        WorkerEnd::Hung { in_flight } => {
            let idx = in_flight.filter(|&i| i >= committed && i < hi);
            (idx.map(|i| (i, Abnormal::WallLimit)), garbled || idx.is_none())
        }
        WorkerEnd::Died { desc, in_flight } => {
            let idx = in_flight.filter(|&i| i >= committed && i < hi);
            if desc.contains("code=Some(2)") {
                eprintln!("MACHINERY: worker over [{lo},{hi}) reported a machinery failure: {desc}");
                std::process::exit(2);
            }
            let voluntary = desc.contains(&format!("code=Some({})", VOLUNTARY_EXIT));
            let refused = desc.contains(&format!("code=Some({})", meter::REFUSE_EXIT));
            let cpu = desc.contains(&format!("code=Some({})", CPU_EXIT));
            if voluntary {
                (None, garbled)
            } else {
                // outside careful mode the marker is sparse: the CPU-limit line carries its own index
                let idx = match &last_cpu {
                    Some((ci, _)) if cpu && *ci >= committed && *ci < hi => Some(*ci),
                    _ => idx,
                };
                let ab = match idx {
                    None if !careful && !cpu && !refused => {
                        need_careful = true;
                        None
                    }
                    None => None,
                    Some(i) => match &last_cpu {
                        Some((ci, ms)) if cpu && *ci == i => Some((i, Abnormal::CpuLimit { ms: *ms })),
                        // single-case refusal exit (resolve / replay style) with the matching A line
                        _ if refused => pending.iter().find(|(pi, _)| *pi == i).cloned(),
                        // exit code of the monitor without a matching line: a race with the next case; retry
                        _ if cpu => None,
                        _ if !careful => {
                            need_careful = true;
                            None
                        }
                        _ => Some((i, Abnormal::Died { desc })),
                    },
                };
                let g = ab.is_none();
                (ab, garbled || g)
            }
        }
    };
    Once { st, committed, allocs, last, glitch: glitch && !need_careful, need_careful }
}

struct Once {
    st: Stats,
    committed: u64,
    /// refused allocations inside committed blocks
    allocs: Vec<(u64, Abnormal)>,
    /// how the worker ended for the case in flight, if it did not complete its range
    last: Option<(u64, Abnormal)>,
    glitch: bool,
    /// the worker crashed while markers were sparse: re-run from `committed` in careful mode
    need_careful: bool,
}

fn abnormal_violation(ctx: &Ctx, plan: &Plan, exe: &std::path::Path, st: &mut Stats, idx: u64, ab: &Abnormal) {
    let tier = if ctx.quick() { "quick" } else { "thorough" };
    let (j, k, r) = plan.locate(idx);
    let (m, ei) = plan.input(j, k);
    let job = &plan.jobs[j];
    let rd = job.readers[r];
    let e = &plan.corpus[ei];
    let order = order_key(e.bytes.len(), idx);
    let (fp, msg, class) = match ab {
        Abnormal::Alloc { req, held, token } => {
            let site = resolve_site(ctx, exe, idx, token);
            (
                format!("c08:{}:alloc@{}", rd.name(), site),
                format!("allocation of {req} bytes requested ({held} bytes then held by the read) for a {}-byte input; bound {} bytes; requesting call site {site}", m.bytes.len(), alloc_bound(m.bytes.len())),
                "alloc-refused",
            )
        }
        Abnormal::CpuLimit { ms } => (format!("c08:{}:hang", rd.name()), format!("no result after {ms} ms of CPU time for a {}-byte input (confirmed with the {CPU_LIMIT_LONG_MS} ms limit for the representative case)", m.bytes.len()), "hang"),
        Abnormal::WallLimit => (format!("c08:{}:hang", rd.name()), format!("no result within {} s wall-clock for a {}-byte input", WALL_WATCHDOG.as_secs(), m.bytes.len()), "hang"),
        Abnormal::Died { desc } => {
            let sig = desc.split_whitespace().take(2).collect::<Vec<_>>().join(" ");
            (format!("c08:{}:died:{}", rd.name(), vcore::strip_digits(&sig)), format!("reader process died: {desc}"), "died")
        }
    };
    st.add(&job.sub, 1, (m.bytes != e.bytes) as u64);
    st.outcome(&format!("{}|{}", rd.name(), class));
    st.violate(order, fp, msg, || plan.case_json(idx, tier));
}

/// Runs [lo, hi) to completion with as many worker restarts as needed.
/// A unit that keeps running into abnormal ends (a corpus entry whose mutants hang or abort, each
/// costing a worker restart) hands the upper half of what is left back to the shared queue through
/// `spill`, so that such a stretch is shared by all threads instead of serialising the run.
fn run_unit(ctx: &Ctx, plan: &Plan, exe: &std::path::Path, lo: u64, hi: u64, peak: &mut u64, spill: &dyn Fn(u64, u64)) -> UnitResult {
    let mut hi = hi;
    let mut st = Stats::new();
    let mut skip: BTreeSet<u64> = BTreeSet::new();
    let mut suspects = vec![];
    let mut cur = lo;
    let mut restarts = 0u64;
    let mut glitches = 0u64;
    let mut careful = false;
    while cur < hi {
        let o = run_once(ctx, exe, cur, hi, &skip, CPU_LIMIT_SHORT_MS, careful, peak);
        if o.need_careful {
            careful = true;
            restarts += 1;
        }
        st.merge(o.st);
        let committed = o.committed;
        cur = committed;
        for (idx, ab) in &o.allocs {
            abnormal_violation(ctx, plan, exe, &mut st, *idx, ab);
        }
        st.count("refused_allocations", o.allocs.len() as u64);
        match o.last {
            Some((idx, ab)) => {
                restarts += 1;
                if matches!(ab, Abnormal::CpuLimit { .. }) {
                    suspects.push(idx);
                } else {
                    abnormal_violation(ctx, plan, exe, &mut st, idx, &ab);
                }
                skip.insert(idx);
                // a CPU-limit exit flushes the partial block up to the case: continue right after it
                if committed == idx {
                    cur = idx + 1;
                }
            }
            None if o.glitch => {
                glitches += 1;
                if glitches > 20 {
                    eprintln!("MACHINERY: worker over [{cur},{hi}) keeps ending without an attributable case");
                    std::process::exit(2);
                }
            }
            None => {
                if cur < hi {
                    restarts += 1; // voluntary restart after MAX_PARKED refusals
                }
            }
        }
        if restarts >= 2 && hi - cur.min(hi) > 64 {
            let mid = (cur + (hi - cur) / 2).div_ceil(32) * 32;
            if mid > cur && mid < hi {
                spill(mid, hi);
                hi = mid;
            }
        }
        if restarts > 500_000 {
            eprintln!("MACHINERY: too many worker restarts in [{lo},{hi})");
            std::process::exit(2);
        }
    }
    st.count("worker_restarts", restarts);
    UnitResult { st, suspects }
}

/// Second pass over the cases that hit the short CPU limit. Per reader (= hang fingerprint) the
/// candidates are re-run one at a time with the long limit, in report order: the first one that also
/// exhausts the long limit confirms the class and the remaining candidates are counted as further
/// occurrences; a candidate that completes contributes its real outcome. After three completions in a
/// row the short limit is considered to have been hit through machine load and every remaining
/// candidate of the class is re-run with the long limit.
fn confirm_suspects(ctx: &Ctx, plan: &Plan, exe: &std::path::Path, mut suspects: Vec<u64>, peak: &mut u64) -> Stats {
    let mut st = Stats::new();
    let key = |idx: u64| {
        let (j, k, _) = plan.locate(idx);
        let (_, ei) = plan.input(j, k);
        order_key(plan.corpus[ei].bytes.len(), idx)
    };
    suspects.sort_by_key(|&i| key(i));
    let mut by_reader: BTreeMap<Rd, Vec<u64>> = BTreeMap::new();
    for i in suspects {
        let (j, _, r) = plan.locate(i);
        by_reader.entry(plan.jobs[j].readers[r]).or_default().push(i);
    }
    let groups: Vec<(Rd, Vec<u64>)> = by_reader.into_iter().collect();
    let merged = Mutex::new((Stats::new(), 0u64));
    std::thread::scope(|s| {
        for (rd, cands) in &groups {
            let merged = &merged;
            s.spawn(move || {
                let mut st = Stats::new();
                let mut pk = 0u64;
                let mut confirmed = false;
                let mut completions_in_row = 0;
                let mut rerun_all = false;
                for (ci, &idx) in cands.iter().enumerate() {
                    if ctx.out_of_time() {
                        st.cap(format!("time budget hit while re-running CPU-limit suspects of {}: {} cases left unclassified", rd.name(), cands.len() - ci));
                        break;
                    }
                    if confirmed && !rerun_all {
                        abnormal_violation(ctx, plan, exe, &mut st, idx, &Abnormal::CpuLimit { ms: CPU_LIMIT_SHORT_MS });
                        continue;
                    }
                    let mut tries = 0;
                    loop {
                        let o = run_once(ctx, exe, idx, idx + 1, &BTreeSet::new(), CPU_LIMIT_LONG_MS, true, &mut pk);
                        let ab = o.last.or_else(|| o.allocs.first().cloned());
                        match ab {
                            None if o.glitch && tries < 5 => {
                                tries += 1;
                                continue;
                            }
                            None if o.glitch => {
                                eprintln!("MACHINERY: cannot re-run case {idx}");
                                std::process::exit(2);
                            }
                            None => {
                                st.merge(o.st);
                                completions_in_row += 1;
                                if completions_in_row >= 3 {
                                    rerun_all = true;
                                }
                                st.count("cpu_limit_hits_that_completed_on_rerun", 1);
                            }
                            Some((_, ab)) => {
                                if matches!(ab, Abnormal::CpuLimit { .. } | Abnormal::WallLimit) {
                                    confirmed = true;
                                    completions_in_row = 0;
                                }
                                abnormal_violation(ctx, plan, exe, &mut st, idx, &ab);
                            }
                        }
                        break;
                    }
                }
                let _ = rd;
                let mut g = merged.lock().unwrap();
                g.0.merge(st);
                g.1 = g.1.max(pk);
            });
        }
    });
    let (s, pk) = merged.into_inner().unwrap();
    st.merge(s);
    *peak = (*peak).max(pk);
    st
}

/// Maps the raw (anchor-relative) stack of a refusal to its call site, symbolising each distinct raw
/// stack once by re-running the case in a `--resolve` worker.
fn resolve_site(ctx: &Ctx, exe: &std::path::Path, idx: u64, token: &str) -> String {
    static CACHE: Mutex<BTreeMap<String, String>> = Mutex::new(BTreeMap::new());
    if let Some(s) = token.strip_prefix("site:") {
        return s.to_string();
    }
    let mut cache = CACHE.lock().unwrap();
    if let Some(s) = cache.get(token) {
        return s.clone();
    }
    let tier = if ctx.quick() { "quick" } else { "thorough" };
    let args: Vec<String> = vec!["C08".into(), "--tier".into(), tier.into(), "--worker".into(), idx.to_string(), (idx + 1).to_string(), "--resolve".into()];
    let mut site: Option<String> = None;
    for _ in 0..5 {
        let _ = run_worker(exe, &args, Some(RLIMIT_AS), Duration::from_secs(600), |l| {
            if let Some(a) = l.strip_prefix("A ") {
                if let Some(p) = a.find("site:") {
                    site = Some(a[p + 5..].trim().to_string());
                }
            }
        });
        if site.is_some() {
            break;
        }
    }
    let Some(site) = site else {
        eprintln!("MACHINERY: could not resolve the allocation site of case {idx}");
        std::process::exit(2);
    };
    cache.insert(token.to_string(), site.clone());
    site
}

fn arg_after(ctx: &Ctx, flag: &str, n: usize) -> Option<String> {
    let p = ctx.extra_args.iter().position(|a| a == flag)?;
    ctx.extra_args.get(p + n).cloned()
}

pub fn run(ctx: &Ctx) -> ! {
    if ctx.has_flag("--worker") {
        if ctx.has_flag("--resolve") {
            meter::RESOLVE.store(true, Ordering::Relaxed);
        }
        let lo: u64 = arg_after(ctx, "--worker", 1).and_then(|s| s.parse().ok()).expect("worker lo");
        let hi: u64 = arg_after(ctx, "--worker", 2).and_then(|s| s.parse().ok()).expect("worker hi");
        let skip: BTreeSet<u64> = arg_after(ctx, "--skip", 1).map(|s| s.split(',').filter_map(|x| x.parse().ok()).collect()).unwrap_or_default();
        let cpu_limit: u64 = arg_after(ctx, "--cpu-limit", 1).and_then(|s| s.parse().ok()).unwrap_or(CPU_LIMIT_LONG_MS);
        worker(ctx, lo, hi, &skip, cpu_limit);
    }
    if ctx.has_flag("--replay-child") {
        replay_child(ctx);
    }
    if ctx.replay.is_some() {
        replay(ctx);
    }
    let plan = plan(!ctx.quick());
    if ctx.has_flag("--corpus") {
        for e in &plan.corpus {
            println!("{:40} {:5} bytes segs={:?} bounds={:?} readers={:?}", e.name, e.bytes.len(), e.segs.len(), e.bounds.len(), e.readers.iter().map(|r| r.name()).collect::<Vec<_>>());
        }
        let mut per: BTreeMap<String, u64> = BTreeMap::new();
        for j in &plan.jobs {
            *per.entry(j.sub.clone()).or_default() += j.n_mut * j.readers.len() as u64;
        }
        for (k, v) in per {
            println!("{k:32} {v}");
        }
        println!("total evaluations: {}", plan.total);
        std::process::exit(0);
    }
    if let Some(i) = arg_after(ctx, "--describe", 1).and_then(|s| s.parse::<u64>().ok()) {
        let mut c = plan.case_json(i, if ctx.quick() { "quick" } else { "thorough" });
        c["input_hex"] = json!("...");
        println!("{c}");
        std::process::exit(0);
    }
    if let Err(m) = corpus_selfcheck(&plan) {
        eprintln!("MACHINERY: corpus self-check failed: {m}");
        std::process::exit(2);
    }
    let exe = std::env::current_exe().expect("current_exe");
    // optional restriction to the sub-engines whose name starts with a prefix (development aid; the
    // evidence then says so)
    let only = arg_after(ctx, "--only", 1);
    // units: block-aligned, small enough for dynamic balancing, large enough to amortise start-up
    let target_units = (ctx.threads as u64) * 24;
    let unit = ((plan.total / target_units.max(1)) / BLOCK + 1) * BLOCK;
    let mut units: Vec<(u64, u64)> = vec![];
    match &only {
        None => {
            let n_units = plan.total.div_ceil(unit);
            for u in 0..n_units {
                units.push((u * unit, ((u + 1) * unit).min(plan.total)));
            }
        }
        Some(pref) => {
            for (ji, j) in plan.jobs.iter().enumerate() {
                if j.sub.starts_with(pref.as_str()) {
                    let end = plan.jobs.get(ji + 1).map(|n| n.start).unwrap_or(plan.total);
                    let mut lo = j.start;
                    while lo < end {
                        let hi = (lo + unit).min(end);
                        units.push((lo, hi));
                        lo = hi;
                    }
                }
            }
        }
    }
    let n_units = units.len() as u64;
    // strided order: every region of the index space (= every format) is started early, so that a format
    // whose mutants need many worker restarts overlaps with the bulk instead of forming the tail
    {
        let n = units.len();
        let stride = [61usize, 67, 71, 73].into_iter().find(|s| n % s != 0).unwrap_or(1);
        let src = units.clone();
        for (i, u) in units.iter_mut().enumerate() {
            *u = src[(i * stride) % n];
        }
    }
    // shared queue of [lo, hi) ranges + number of threads currently inside a unit (they may spill)
    let queue = Mutex::new((units.iter().copied().collect::<std::collections::VecDeque<(u64, u64)>>(), 0usize));
    let merged = Mutex::new((Stats::new(), 0u64, Vec::<u64>::new()));
    let capped = AtomicU64::new(0);
    std::thread::scope(|s| {
        for _ in 0..ctx.threads.max(1) {
            s.spawn(|| {
                let mut local = Stats::new();
                let mut peak = 0u64;
                let mut suspects = vec![];
                loop {
                    let job = {
                        let mut q = queue.lock().unwrap();
                        match q.0.pop_front() {
                            Some(j) => {
                                q.1 += 1;
                                Some(j)
                            }
                            None if q.1 == 0 => break,
                            None => None,
                        }
                    };
                    let Some((lo, hi)) = job else {
                        std::thread::sleep(Duration::from_millis(5));
                        continue;
                    };
                    if ctx.out_of_time() {
                        capped.fetch_add(hi - lo, Ordering::Relaxed);
                    } else {
                        let spill = |a: u64, b: u64| queue.lock().unwrap().0.push_front((a, b));
                        let t0 = std::time::Instant::now();
                        let r = run_unit(ctx, &plan, &exe, lo, hi, &mut peak, &spill);
                        if std::env::var_os("VK_TIMING").is_some() {
                            eprintln!("timing: unit [{lo},{hi}) {} took {:.1}s, finished at {:.1}s", plan.jobs[plan.locate(lo).0].sub, t0.elapsed().as_secs_f64(), ctx.start.elapsed().as_secs_f64());
                        }
                        local.merge(r.st);
                        suspects.extend(r.suspects);
                    }
                    queue.lock().unwrap().1 -= 1;
                }
                let mut g = merged.lock().unwrap();
                g.0.merge(local);
                g.1 = g.1.max(peak);
                g.2.extend(suspects);
            });
        }
    });
    let (mut st, mut peak, suspects) = merged.into_inner().unwrap();
    if std::env::var_os("VK_TIMING").is_some() {
        eprintln!("timing: sweep done after {:.1}s, {} suspects", ctx.start.elapsed().as_secs_f64(), suspects.len());
    }
    st.count("cpu_limit_short_hits", suspects.len() as u64);
    st.merge(confirm_suspects(ctx, &plan, &exe, suspects, &mut peak));
    let c = capped.load(Ordering::Relaxed);
    if c > 0 {
        st.cap(format!("time budget hit: {c} of {} evaluations ({n_units} work units) not run", plan.total));
    }
    if let Some(pref) = &only {
        st.cap(format!("restricted by --only {pref}"));
    }
    // coverage extras
    let mut per_fmt: BTreeMap<&str, (usize, usize, usize)> = BTreeMap::new();
    for e in &plan.corpus {
        let x = per_fmt.entry(e.fmt.name()).or_insert((0, usize::MAX, 0));
        x.0 += 1;
        x.1 = x.1.min(e.bytes.len());
        x.2 = x.2.max(e.bytes.len());
    }
    st.extra.insert("corpus".into(), json!(per_fmt.iter().map(|(k, v)| (k.to_string(), json!({"entries": v.0, "min_len": v.1, "max_len": v.2}))).collect::<vcore::serde_json::Map<_, _>>()));
    st.extra.insert("corpus_entries".into(), json!(plan.corpus.iter().map(|e| json!({"name": e.name, "len": e.bytes.len(), "readers": e.readers.iter().map(|r| r.name()).collect::<Vec<_>>()})).collect::<Vec<_>>()));
    st.extra.insert("planned_evaluations".into(), json!(plan.total));
    st.extra.insert("max_peak_alloc_bytes_of_completed_reads".into(), json!(peak));
    st.extra.insert("alloc_bound".into(), json!("max(64 MiB, 4096 x input length) + 1 MiB held by one read"));
    st.extra.insert("cpu_limits_ms".into(), json!({"sweep": CPU_LIMIT_SHORT_MS, "confirmation": CPU_LIMIT_LONG_MS, "wall_watchdog_s": WALL_WATCHDOG.as_secs()}));
    st.extra.insert("violation_occurrences".into(), json!(st.viol_counts));
    let level = Level {
        category: "fault_enumeration",
        rule: "an evaluation is one (corpus entry, mutation, reader entry point) descriptor; distinct by construction; non-trivial iff the mutated bytes differ from the pristine corpus entry (different descriptors may still produce identical bytes, e.g. a window overwrite that equals a bit flip)".into(),
        assumptions: vec![
            "corpus inputs are 4..1500 bytes produced by the library's own writers; inputs larger than the corpus and multi-field coordinated corruptions other than splices and length windows are not explored".into(),
            "each evaluation runs in a worker subprocess of the engine (RLIMIT_AS 4 GiB); a refused allocation or an exhausted CPU-time limit ends the worker and is attributed to the case in flight; termination = a result within the CPU-time limit (0.25 s in the sweep; every case that hits it is set aside and the representative of each reader is re-run alone with a 10 s limit before the class is reported)".into(),
            "allocation is metered per reading thread through the Rust global allocator; the readers under test do not spawn threads; memory obtained by C codec libraries (zstd, bzip2, xz) directly from malloc is only limited by RLIMIT_AS".into(),
            "validity oracle = RecordBatch/schema agreement + ArrayData::validate_full + union type-id/offset check; semantic equality with the pristine decode is not required (any valid data is acceptable)".into(),
        ],
        exhaustive_space: format!(
            "{} corpus entries x operators [{} | truncate(all lengths) | 2/4/8-byte LE windows x value menu | LEB128/zigzag varint starts x value menu (parquet, avro)] x readers; all ordered same-format pairs x structural boundary pairs (splices); Variant: all byte strings of length <= 2 as value against each distinct corpus metadata and as metadata against 4 corpus values",
            plan.corpus.len(),
            if ctx.quick() { "every single-bit flip" } else { "every byte x all 255 other values" }
        ),
    };
    vcore::finish(ctx, level, st)
}

// ------------------------------------------------------------------------------------------------
// replay

fn case_entry<'a>(plan: &'a Plan, case: &Value) -> Option<(&'a Entry, Rd)> {
    let name = case["entry"].as_str()?;
    let e = plan.corpus.iter().find(|e| e.name == name)?;
    let rname = case["reader"].as_str()?;
    let all = [
        Rd::IpcStreamReader, Rd::IpcStreamDecoder, Rd::IpcFileReader, Rd::FlightToBatches, Rd::FlightDecoder, Rd::PqMeta, Rd::PqArrow, Rd::PqArrowIdx, Rd::PqArrowSel, Rd::AvroOcfReader, Rd::AvroDecoder, Rd::CsvReader, Rd::CsvInfer,
        Rd::JsonReader, Rd::JsonInfer, Rd::VariantTryNew,
    ];
    let rd = all.into_iter().find(|r| r.name() == rname)?;
    Some((e, rd))
}

fn replay_child(ctx: &Ctx) -> ! {
    meter::RESOLVE.store(true, Ordering::Relaxed);
    spawn_cpu_monitor(CPU_LIMIT_LONG_MS);
    let path = arg_after(ctx, "--replay-child", 1).expect("replay file");
    let txt = std::fs::read_to_string(&path).expect("read replay");
    let v: Value = vcore::serde_json::from_str(&txt).expect("replay json");
    let case = v.get("case").cloned().unwrap_or(v);
    let plan = plan(true);
    let Some((e, rd)) = case_entry(&plan, &case) else {
        println!("R {}", json!({"machinery": "unknown entry or reader in replay case"}));
        println!("DONE");
        std::process::exit(0);
    };
    let bytes = unhex(case["input_hex"].as_str().unwrap_or(""));
    let segs: Vec<usize> = case["segs"].as_array().map(|a| a.iter().map(|x| x.as_u64().unwrap_or(0) as usize).collect()).unwrap_or_else(|| vec![bytes.len()]);
    println!("@ 0");
    meter::CASE_IDX.store(0, Ordering::Relaxed);
    let ev = evaluate(rd, e, &bytes, &segs, None);
    println!("R {}", json!({"class": ev.class, "violation": ev.violation.as_ref().map(|v| json!({"fingerprint": v.0, "message": v.1})), "peak_alloc": ev.peak}));
    println!("DONE");
    std::process::exit(0);
}

fn replay(ctx: &Ctx) -> ! {
    let path = ctx.replay.clone().unwrap();
    let case = vcore::load_replay(ctx).unwrap();
    println!("replay case: entry={} reader={} mutation={} input_len={}", case["entry"], case["reader"], case["mutation"], case["input_len"]);
    println!("expectation: Err, or Ok with valid arrays; no panic; result within {} ms of CPU time; <= {} bytes held", CPU_LIMIT_LONG_MS, alloc_bound(case["input_len"].as_u64().unwrap_or(0) as usize));
    let exe = std::env::current_exe().expect("current_exe");
    let args: Vec<String> = vec!["C08".into(), "--replay-child".into(), path.display().to_string()];
    let mut res: Option<Value> = None;
    let mut alloc: Option<String> = None;
    let mut cpu: Option<String> = None;
    let end = run_worker(&exe, &args, Some(RLIMIT_AS), WALL_WATCHDOG, |l| {
        if let Some(j) = l.strip_prefix("R ") {
            res = vcore::serde_json::from_str(j).ok();
        } else if let Some(a) = l.strip_prefix("A ") {
            alloc = Some(a.to_string());
        } else if let Some(h) = l.strip_prefix("H ") {
            cpu = Some(h.to_string());
        }
    });
    let bad = match end {
        WorkerEnd::Completed => match res {
            Some(r) if r.get("machinery").is_some() => {
                println!("replay outcome: MACHINERY {}", r["machinery"]);
                std::process::exit(2)
            }
            Some(r) => {
                println!("replay outcome: class={} peak_alloc={} violation={}", r["class"], r["peak_alloc"], r["violation"]);
                !r["violation"].is_null()
            }
            None => {
                println!("replay outcome: no result line");
                std::process::exit(2)
            }
        },
        WorkerEnd::Died { desc, .. } => {
            match (alloc, cpu) {
                (Some(a), _) => println!("replay outcome: ALLOCATION REFUSED (idx requested held site) = {a}"),
                (_, Some(h)) => println!("replay outcome: HANG, CPU-time limit exhausted (idx cpu_ms) = {h}"),
                _ => println!("replay outcome: reader process DIED: {desc}"),
            }
            true
        }
        WorkerEnd::Hung { .. } => {
            println!("replay outcome: HANG (no result within {} s)", WALL_WATCHDOG.as_secs());
            true
        }
    };
    std::process::exit(if bad { 1 } else { 0 });
}
