//! Deterministic corpus of small valid inputs, produced at check time by the library's own writers.
use arrow_array::builder::*;
use arrow_array::types::*;
use arrow_array::*;
use arrow_buffer::{Buffer, NullBuffer, OffsetBuffer, ScalarBuffer, i256};
use arrow_schema::*;
use std::collections::HashMap;
use std::sync::Arc;

#[derive(Clone, Copy, PartialEq, Eq, Debug, PartialOrd, Ord)]
pub enum Fmt {
    IpcStream,
    IpcFile,
    Flight,
    Parquet,
    AvroOcf,
    AvroSoe,
    Csv,
    Json,
    Variant,
}

impl Fmt {
    pub fn name(self) -> &'static str {
        match self {
            Fmt::IpcStream => "ipc-stream",
            Fmt::IpcFile => "ipc-file",
            Fmt::Flight => "flight",
            Fmt::Parquet => "parquet",
            Fmt::AvroOcf => "avro-ocf",
            Fmt::AvroSoe => "avro-soe",
            Fmt::Csv => "csv",
            Fmt::Json => "json",
            Fmt::Variant => "variant",
        }
    }
    /// formats whose framing uses LEB128 varints (thrift compact protocol, Avro)
    pub fn has_varints(self) -> bool {
        matches!(self, Fmt::Parquet | Fmt::AvroOcf | Fmt::AvroSoe)
    }
}

#[derive(Clone, Copy, PartialEq, Eq, Debug, PartialOrd, Ord)]
pub enum Rd {
    IpcStreamReader,
    IpcStreamDecoder,
    IpcFileReader,
    FlightToBatches,
    FlightDecoder,
    PqMeta,
    PqArrow,
    PqArrowIdx,
    PqArrowSel,
    AvroOcfReader,
    AvroDecoder,
    CsvReader,
    CsvInfer,
    JsonReader,
    JsonInfer,
    VariantTryNew,
}

impl Rd {
    pub fn name(self) -> &'static str {
        match self {
            Rd::IpcStreamReader => "ipc-stream-reader",
            Rd::IpcStreamDecoder => "ipc-stream-decoder",
            Rd::IpcFileReader => "ipc-file-reader",
            Rd::FlightToBatches => "flight-to-batches",
            Rd::FlightDecoder => "flight-decoder",
            Rd::PqMeta => "pq-metadata",
            Rd::PqArrow => "pq-arrow",
            Rd::PqArrowIdx => "pq-arrow-pageidx",
            Rd::PqArrowSel => "pq-arrow-pageidx-select",
            Rd::AvroOcfReader => "avro-ocf-reader",
            Rd::AvroDecoder => "avro-decoder",
            Rd::CsvReader => "csv-reader",
            Rd::CsvInfer => "csv-infer",
            Rd::JsonReader => "json-reader",
            Rd::JsonInfer => "json-infer",
            Rd::VariantTryNew => "variant-try-new",
        }
    }
}

#[derive(Clone, Copy, PartialEq, Eq, Debug)]
pub enum AvroFp {
    Rabin,
    Id(u32),
}

pub struct Entry {
    pub name: String,
    pub fmt: Fmt,
    /// flat concatenation of all segments
    pub bytes: Vec<u8>,
    /// end offset of every segment (single-segment formats: `[len]`). Flight: header,body pairs.
    /// Variant: metadata, value.
    pub segs: Vec<usize>,
    /// CSV / JSON: schema handed to the reader
    pub schema: Option<SchemaRef>,
    /// Avro single-object: writer schema JSON + fingerprint kind registered in the store
    pub avro: Option<(String, AvroFp)>,
    #[allow(dead_code)]
    pub page_index: bool,
    /// structural boundaries (offsets into `bytes`) used by the splice operator
    pub bounds: Vec<usize>,
    pub readers: Vec<Rd>,
}

// ------------------------------------------------------------------------------------------------
// batches

fn batch(cols: Vec<(&str, ArrayRef, bool)>) -> RecordBatch {
    let fields: Vec<Field> = cols.iter().map(|(n, a, nullable)| Field::new(*n, a.data_type().clone(), *nullable)).collect();
    RecordBatch::try_new(Arc::new(Schema::new(fields)), cols.into_iter().map(|c| c.1).collect()).expect("corpus batch")
}

fn b_prim() -> RecordBatch {
    batch(vec![
        ("i", Arc::new(Int32Array::from(vec![Some(1), None, Some(-3), Some(i32::MAX)])), true),
        ("f", Arc::new(Float64Array::from(vec![1.5, -0.0, f64::NAN, 4.0])), false),
        ("b", Arc::new(BooleanArray::from(vec![Some(true), Some(false), None, Some(true)])), true),
    ])
}
fn b_prim2() -> RecordBatch {
    batch(vec![
        ("i", Arc::new(Int32Array::from(vec![Some(7), Some(8)])), true),
        ("f", Arc::new(Float64Array::from(vec![0.25, 9.0])), false),
        ("b", Arc::new(BooleanArray::from(vec![None, Some(false)])), true),
    ])
}
fn b_str() -> RecordBatch {
    batch(vec![
        ("s", Arc::new(StringArray::from(vec![Some("\u{e9}t\u{e9}"), None, Some(""), Some("d\u{e9}j\u{e0}")])), true),
        ("y", Arc::new(BinaryArray::from(vec![Some(&b"\x00\xff"[..]), Some(&b""[..]), None, Some(&b"xyz"[..])])), true),
        ("l", Arc::new(LargeStringArray::from(vec!["\u{fc}", "qq", "rrr", ""])), false),
    ])
}
fn b_dict() -> RecordBatch {
    let d: DictionaryArray<Int8Type> = vec![Some("red"), Some("green"), None, Some("red")].into_iter().collect();
    batch(vec![("d", Arc::new(d), true), ("n", Arc::new(Int16Array::from(vec![1, 2, 3, 4])), false)])
}
fn b_views() -> RecordBatch {
    batch(vec![
        ("sv", Arc::new(StringViewArray::from(vec![Some("short"), None, Some("a string longer than twelve bytes"), Some("")])), true),
        ("bv", Arc::new(BinaryViewArray::from(vec![Some(&b"\x01\x02"[..]), Some(&b"0123456789abcdef"[..]), None, Some(&b""[..])])), true),
    ])
}
fn b_list() -> RecordBatch {
    let mut lb = ListBuilder::new(Int32Builder::new());
    lb.append_value([Some(1), None, Some(3)]);
    lb.append_null();
    lb.append_value([]);
    lb.append_value([Some(9)]);
    let l = lb.finish();
    let mut ll = LargeListBuilder::new(StringBuilder::new());
    ll.append_value([Some("a"), Some("bc")]);
    ll.append_value([None::<&str>]);
    ll.append_null();
    ll.append_value([Some("")]);
    let ll = ll.finish();
    let mut fb = FixedSizeListBuilder::new(Int16Builder::new(), 2);
    for i in 0..4 {
        fb.values().append_value(i);
        fb.values().append_value(-i);
        fb.append(i != 2);
    }
    let f = fb.finish();
    batch(vec![("l", Arc::new(l), true), ("ll", Arc::new(ll), true), ("fl", Arc::new(f), true)])
}
fn b_struct() -> RecordBatch {
    let a = Arc::new(Int32Array::from(vec![Some(1), Some(2), None, Some(4)])) as ArrayRef;
    let b = Arc::new(StringArray::from(vec![Some("w"), None, Some("y"), Some("z")])) as ArrayRef;
    let fields = Fields::from(vec![Field::new("a", DataType::Int32, true), Field::new("b", DataType::Utf8, true)]);
    let s = StructArray::new(fields, vec![a, b], Some(NullBuffer::from(vec![true, true, false, true])));
    batch(vec![("st", Arc::new(s), true), ("k", Arc::new(UInt8Array::from(vec![0, 1, 2, 255])), false)])
}
fn b_union() -> RecordBatch {
    let uf = UnionFields::try_new(vec![3, 7], vec![Field::new("i", DataType::Int32, true), Field::new("s", DataType::Utf8, true)]).unwrap();
    let dense = UnionArray::try_new(
        uf.clone(),
        ScalarBuffer::from(vec![3i8, 7, 3, 7]),
        Some(ScalarBuffer::from(vec![0i32, 0, 1, 1])),
        vec![Arc::new(Int32Array::from(vec![Some(5), None])) as ArrayRef, Arc::new(StringArray::from(vec!["u", "vv"])) as ArrayRef],
    )
    .unwrap();
    let sparse = UnionArray::try_new(
        uf,
        ScalarBuffer::from(vec![7i8, 3, 3, 7]),
        None,
        vec![Arc::new(Int32Array::from(vec![0, 1, 2, 3])) as ArrayRef, Arc::new(StringArray::from(vec!["a", "b", "c", "d"])) as ArrayRef],
    )
    .unwrap();
    batch(vec![("du", Arc::new(dense), true), ("su", Arc::new(sparse), true)])
}
fn b_misc() -> RecordBatch {
    batch(vec![
        ("z", Arc::new(NullArray::new(4)), true),
        ("x", Arc::new(FixedSizeBinaryArray::try_from_sparse_iter_with_size(vec![Some(vec![1u8, 2, 3]), None, Some(vec![4, 5, 6]), Some(vec![7, 8, 9])].into_iter(), 3).unwrap()), true),
        ("m", Arc::new(Decimal128Array::from(vec![Some(12345), None, Some(-1), Some(0)]).with_precision_and_scale(10, 2).unwrap()), true),
        ("t", Arc::new(TimestampMicrosecondArray::from(vec![0, 1, -1, 1_600_000_000_000_000]).with_timezone("+01:00")), false),
        ("dt", Arc::new(Date32Array::from(vec![Some(0), Some(19000), None, Some(-1)])), true),
    ])
}
fn b_map() -> RecordBatch {
    let mut mb = MapBuilder::new(None, StringBuilder::new(), Int32Builder::new());
    mb.keys().append_value("k1");
    mb.values().append_value(1);
    mb.keys().append_value("k2");
    mb.values().append_null();
    mb.append(true).unwrap();
    mb.append(false).unwrap();
    mb.append(true).unwrap();
    mb.keys().append_value("k3");
    mb.values().append_value(3);
    mb.append(true).unwrap();
    let m = mb.finish();
    batch(vec![("m", Arc::new(m), true), ("d256", Arc::new(Decimal256Array::from(vec![Some(i256::from_i128(7)), None, Some(i256::from_i128(-7)), Some(i256::ZERO)]).with_precision_and_scale(40, 3).unwrap()), true)])
}
fn b_listview_ree() -> RecordBatch {
    let values = Arc::new(Int32Array::from(vec![1, 2, 3, 4, 5])) as ArrayRef;
    let lv = ListViewArray::try_new(
        Arc::new(Field::new_list_field(DataType::Int32, true)),
        ScalarBuffer::from(vec![3i32, 0, 0, 1]),
        ScalarBuffer::from(vec![2i32, 3, 0, 2]),
        values,
        Some(NullBuffer::from(vec![true, true, false, true])),
    )
    .unwrap();
    let ree = RunArray::<Int16Type>::try_new(&Int16Array::from(vec![1i16, 3, 4]), &StringArray::from(vec![Some("x"), None, Some("z")])).unwrap();
    batch(vec![("lv", Arc::new(lv), true), ("ree", Arc::new(ree), true)])
}
fn b_nested_dict() -> RecordBatch {
    let keys = Int8Array::from(vec![Some(0), Some(1), None, Some(0), Some(1)]);
    let vals = Arc::new(StringArray::from(vec!["aa", "bb"])) as ArrayRef;
    let d = DictionaryArray::<Int8Type>::try_new(keys, vals).unwrap();
    let l = ListArray::new(Arc::new(Field::new_list_field(d.data_type().clone(), true)), OffsetBuffer::new(ScalarBuffer::from(vec![0i32, 2, 2, 5])), Arc::new(d), Some(NullBuffer::from(vec![true, false, true])));
    batch(vec![("ld", Arc::new(l), true)])
}
fn b_empty_rows() -> RecordBatch {
    batch(vec![("i", Arc::new(Int32Array::from(Vec::<i32>::new())), true), ("s", Arc::new(StringArray::from(Vec::<&str>::new())), true)])
}
fn b_sliced() -> RecordBatch {
    // non-zero offsets: the writers must re-base them; exercises truncated buffers on the wire
    let b = batch(vec![
        ("i", Arc::new(Int64Array::from(vec![Some(10), None, Some(30), Some(40), Some(50), None])), true),
        ("s", Arc::new(StringArray::from(vec![Some("aa"), Some("b"), None, Some("dddd"), Some(""), Some("f")])), true),
        ("b", Arc::new(BooleanArray::from(vec![true, false, true, true, false, false])), false),
    ]);
    b.slice(1, 4)
}

// ------------------------------------------------------------------------------------------------
// IPC

fn ipc_opts(align: usize, comp: Option<arrow_ipc::CompressionType>) -> arrow_ipc::writer::IpcWriteOptions {
    arrow_ipc::writer::IpcWriteOptions::try_new(align, false, arrow_ipc::MetadataVersion::V5).unwrap().try_with_compression(comp).unwrap()
}

fn ipc_stream(batches: &[RecordBatch], schema: &SchemaRef, o: arrow_ipc::writer::IpcWriteOptions) -> Vec<u8> {
    let mut w = arrow_ipc::writer::StreamWriter::try_new_with_options(Vec::new(), schema, o).unwrap();
    for b in batches {
        w.write(b).unwrap();
    }
    w.finish().unwrap();
    w.into_inner().unwrap()
}
fn ipc_file(batches: &[RecordBatch], schema: &SchemaRef, o: arrow_ipc::writer::IpcWriteOptions) -> Vec<u8> {
    let mut w = arrow_ipc::writer::FileWriter::try_new_with_options(Vec::new(), schema, o).unwrap();
    for b in batches {
        w.write(b).unwrap();
    }
    w.finish().unwrap();
    w.into_inner().unwrap()
}

/// message boundaries of the encapsulated message framing starting at `start`
fn ipc_bounds(bytes: &[u8], start: usize) -> Vec<usize> {
    let mut out = vec![];
    let mut p = start;
    loop {
        out.push(p);
        if p + 8 > bytes.len() {
            break;
        }
        let mut q = p;
        let mut len = u32::from_le_bytes(bytes[q..q + 4].try_into().unwrap());
        if len == 0xFFFF_FFFF {
            q += 4;
            len = u32::from_le_bytes(bytes[q..q + 4].try_into().unwrap());
        }
        q += 4;
        if len == 0 {
            out.push(q);
            break;
        }
        let mend = q + len as usize;
        if mend > bytes.len() {
            break;
        }
        let Ok(m) = arrow_ipc::root_as_message(&bytes[q..mend]) else { break };
        p = mend + m.bodyLength() as usize;
        if p > bytes.len() {
            break;
        }
    }
    out
}

fn ipc_entries(out: &mut Vec<Entry>) {
    let (lz4, zstd) = (arrow_ipc::CompressionType::LZ4_FRAME, arrow_ipc::CompressionType::ZSTD);
    let sets: Vec<(&str, Vec<RecordBatch>, usize, Option<arrow_ipc::CompressionType>)> = vec![
        ("prim", vec![b_prim(), b_prim2()], 8, None),
        ("prim-a64", vec![b_prim()], 64, None),
        ("str", vec![b_str()], 8, None),
        ("dict", vec![b_dict(), b_dict()], 8, None),
        ("views", vec![b_views()], 8, None),
        ("list", vec![b_list()], 8, None),
        ("struct", vec![b_struct()], 8, None),
        ("union", vec![b_union()], 8, None),
        ("misc", vec![b_misc()], 8, None),
        ("map", vec![b_map()], 8, None),
        ("listview-ree", vec![b_listview_ree()], 8, None),
        ("nested-dict", vec![b_nested_dict()], 8, None),
        ("sliced", vec![b_sliced()], 8, None),
        ("empty", vec![b_empty_rows()], 8, None),
        ("lz4", vec![b_str()], 8, Some(lz4)),
        ("zstd", vec![b_prim(), b_prim2()], 8, Some(zstd)),
        ("zstd-views", vec![b_views()], 8, Some(zstd)),
    ];
    for (name, batches, align, comp) in sets {
        let schema = batches[0].schema();
        let s = ipc_stream(&batches, &schema, ipc_opts(align, comp));
        let b = ipc_bounds(&s, 0);
        out.push(Entry {
            name: format!("ipc-stream/{name}"),
            fmt: Fmt::IpcStream,
            segs: vec![s.len()],
            bytes: s,
            schema: None,
            avro: None,
            page_index: false,
            bounds: b,
            readers: vec![Rd::IpcStreamReader, Rd::IpcStreamDecoder],
        });
        let f = ipc_file(&batches, &schema, ipc_opts(align, comp));
        let mut b = ipc_bounds(&f, 8);
        b.push(f.len() - 10);
        b.push(f.len() - 6);
        out.push(Entry {
            name: format!("ipc-file/{name}"),
            fmt: Fmt::IpcFile,
            segs: vec![f.len()],
            bytes: f,
            schema: None,
            avro: None,
            page_index: false,
            bounds: b,
            readers: vec![Rd::IpcFileReader],
        });
    }
    // schema-only stream / file
    let schema = b_prim().schema();
    let s = ipc_stream(&[], &schema, ipc_opts(8, None));
    out.push(Entry { name: "ipc-stream/schema-only".into(), fmt: Fmt::IpcStream, segs: vec![s.len()], bounds: ipc_bounds(&s, 0), bytes: s, schema: None, avro: None, page_index: false, readers: vec![Rd::IpcStreamReader, Rd::IpcStreamDecoder] });
    let f = ipc_file(&[], &schema, ipc_opts(8, None));
    out.push(Entry { name: "ipc-file/schema-only".into(), fmt: Fmt::IpcFile, segs: vec![f.len()], bounds: ipc_bounds(&f, 8), bytes: f, schema: None, avro: None, page_index: false, readers: vec![Rd::IpcFileReader] });
}

// ------------------------------------------------------------------------------------------------
// Flight

fn flight_entries(out: &mut Vec<Entry>) {
    let sets: Vec<(&str, Vec<RecordBatch>, bool)> = vec![
        ("prim", vec![b_prim(), b_prim2()], true),
        ("str", vec![b_str()], true),
        ("dict", vec![b_dict()], false),
        ("struct", vec![b_struct()], true),
        ("views", vec![b_views()], true),
        ("list", vec![b_list()], true),
    ];
    for (name, batches, plain) in sets {
        let schema = batches[0].schema();
        let fds: Vec<arrow_flight::FlightData> = if plain {
            arrow_flight::utils::batches_to_flight_data(&schema, batches).expect("flight encode")
        } else {
            // dictionary batches on the wire need the stream encoder
            use futures::StreamExt;
            let enc = arrow_flight::encode::FlightDataEncoderBuilder::new()
                .with_dictionary_handling(arrow_flight::encode::DictionaryHandling::Resend)
                .with_options(ipc_opts(8, None))
                .build(futures::stream::iter(batches.into_iter().map(Ok)));
            futures::executor::block_on(enc.collect::<Vec<_>>()).into_iter().map(|r| r.expect("flight encode")).collect()
        };
        let mut bytes = vec![];
        let mut segs = vec![];
        let mut bounds = vec![0];
        for fd in &fds {
            bytes.extend_from_slice(&fd.data_header);
            segs.push(bytes.len());
            bytes.extend_from_slice(&fd.data_body);
            segs.push(bytes.len());
            bounds.push(bytes.len());
        }
        let mut readers = vec![Rd::FlightDecoder];
        if plain {
            readers.insert(0, Rd::FlightToBatches);
        }
        out.push(Entry { name: format!("flight/{name}"), fmt: Fmt::Flight, bytes, segs, schema: None, avro: None, page_index: false, bounds, readers });
    }
}

// ------------------------------------------------------------------------------------------------
// Parquet

use parquet::basic::{Compression, Encoding};
use parquet::file::properties::{EnabledStatistics, WriterProperties, WriterPropertiesBuilder, WriterVersion};
use parquet::schema::types::ColumnPath;

fn pq_write(batches: &[RecordBatch], props: WriterProperties, skip_arrow_meta: bool) -> Vec<u8> {
    let opts = parquet::arrow::arrow_writer::ArrowWriterOptions::new().with_properties(props).with_skip_arrow_metadata(skip_arrow_meta);
    let mut w = parquet::arrow::ArrowWriter::try_new_with_options(Vec::new(), batches[0].schema(), opts).expect("parquet writer");
    for b in batches {
        w.write(b).expect("parquet write");
    }
    w.into_inner().expect("parquet close")
}

fn pq_bounds(bytes: &[u8]) -> Vec<usize> {
    use parquet::file::metadata::{PageIndexPolicy, ParquetMetaDataReader};
    let b = bytes::Bytes::copy_from_slice(bytes);
    let md = ParquetMetaDataReader::new().with_page_index_policy(PageIndexPolicy::Optional).parse_and_finish(&b).expect("corpus parquet metadata");
    let mut out = vec![0usize, 4];
    for rg in md.row_groups() {
        for c in rg.columns() {
            let (s, l) = c.byte_range();
            out.push(s as usize);
            out.push((s + l) as usize);
            if let Some(d) = c.dictionary_page_offset() {
                out.push(d as usize);
            }
            out.push(c.data_page_offset() as usize);
            if let Some(o) = c.column_index_offset() {
                out.push(o as usize);
            }
            if let Some(o) = c.offset_index_offset() {
                out.push(o as usize);
            }
        }
    }
    if let Some(pi) = md.page_index() {
        for (r, rg) in md.row_groups().iter().enumerate() {
            for c in 0..rg.num_columns() {
                if let Some(oi) = pi.offset_index(r, c) {
                    for p in oi.page_locations() {
                        out.push(p.offset as usize);
                    }
                }
            }
        }
    }
    let flen = u32::from_le_bytes(bytes[bytes.len() - 8..bytes.len() - 4].try_into().unwrap()) as usize;
    out.push(bytes.len() - 8 - flen);
    out.push(bytes.len() - 8);
    out.push(bytes.len() - 4);
    out.sort();
    out.dedup();
    out.retain(|&o| o <= bytes.len());
    out
}

fn pq_flat() -> RecordBatch {
    batch(vec![
        ("i", Arc::new(Int32Array::from(vec![Some(1), None, Some(-3), Some(4), Some(4), Some(1)])), true),
        ("l", Arc::new(Int64Array::from(vec![10, 20, 30, 30, 30, -1])), false),
        ("d", Arc::new(Float64Array::from(vec![Some(1.5), Some(2.5), None, Some(-0.5), Some(1.5), Some(0.0)])), true),
        ("b", Arc::new(BooleanArray::from(vec![Some(true), None, Some(false), Some(true), Some(true), Some(false)])), true),
        ("s", Arc::new(StringArray::from(vec![Some("aa"), Some("b"), None, Some("aa"), Some("cccc"), Some("")])), true),
    ])
}
fn pq_strs() -> RecordBatch {
    batch(vec![
        ("s", Arc::new(StringArray::from(vec![Some("\u{e1}pple"), Some("\u{e1}pric\u{f6}t"), None, Some("banana"), Some("b\u{e4}nd"), Some("\u{e1}pple")])), true),
        ("t", Arc::new(StringArray::from(vec!["\u{e9}", "\u{e9}y", "xyz", "", "\u{e9}", "q"])), false),
        ("y", Arc::new(BinaryArray::from(vec![Some(&b"\x00\x01"[..]), None, Some(&b"\xff"[..]), Some(&b""[..]), Some(&b"ab"[..]), None])), true),
        ("n", Arc::new(Int32Array::from(vec![100, 101, 103, 106, 110, 90])), false),
        ("m", Arc::new(Int64Array::from(vec![Some(-5), None, Some(1 << 40), Some(7), Some(7), Some(8)])), true),
    ])
}
fn pq_bss() -> RecordBatch {
    batch(vec![
        ("f", Arc::new(Float32Array::from(vec![Some(1.0f32), None, Some(-2.5), Some(3.25)])), true),
        ("d", Arc::new(Float64Array::from(vec![0.5, 1.5, -1.0, 8.0])), false),
        ("i", Arc::new(Int32Array::from(vec![1, 256, 65536, -1])), false),
        ("x", Arc::new(FixedSizeBinaryArray::try_from_sparse_iter_with_size(vec![Some(vec![1u8, 2, 3]), None, Some(vec![4, 5, 6]), Some(vec![7, 8, 9])].into_iter(), 3).unwrap()), true),
    ])
}
fn pq_bools() -> RecordBatch {
    let v: Vec<Option<bool>> = (0..20).map(|i| if i % 7 == 3 { None } else { Some(i % 3 == 0 || i > 12) }).collect();
    let w: Vec<bool> = (0..20).map(|i| i < 10).collect();
    batch(vec![("b", Arc::new(BooleanArray::from(v)), true), ("c", Arc::new(BooleanArray::from(w)), false)])
}
fn pq_nested_list() -> RecordBatch {
    let mut lb = ListBuilder::new(Int32Builder::new());
    lb.append_value([Some(1), None, Some(3)]);
    lb.append_null();
    lb.append_value([]);
    lb.append_value([Some(9)]);
    let l = lb.finish();
    let mut llb = ListBuilder::new(ListBuilder::new(StringBuilder::new()));
    llb.values().append_value([Some("a"), None]);
    llb.values().append_null();
    llb.append(true);
    llb.append(false);
    llb.values().append_value([Some("bc")]);
    llb.append(true);
    llb.append(true);
    let ll = llb.finish();
    batch(vec![("l", Arc::new(l), true), ("ll", Arc::new(ll), true)])
}
fn pq_struct_map() -> RecordBatch {
    let s = b_struct().column(0).clone();
    let m = b_map().column(0).clone();
    batch(vec![("st", s, true), ("m", m, true)])
}
fn pq_types() -> RecordBatch {
    batch(vec![
        ("x", Arc::new(FixedSizeBinaryArray::try_from_sparse_iter_with_size(vec![Some(vec![1u8, 2]), None, Some(vec![4, 5])].into_iter(), 2).unwrap()), true),
        ("m", Arc::new(Decimal128Array::from(vec![Some(12345), None, Some(-1)]).with_precision_and_scale(20, 2).unwrap()), true),
        ("m4", Arc::new(Decimal128Array::from(vec![Some(5), Some(6), None]).with_precision_and_scale(5, 1).unwrap()), true),
        ("t", Arc::new(TimestampMillisecondArray::from(vec![0, 1, -1]).with_timezone("UTC")), false),
        ("dt", Arc::new(Date32Array::from(vec![Some(0), Some(19000), None])), true),
        ("tm", Arc::new(Time64MicrosecondArray::from(vec![0, 1, 86_399_999_999])), false),
        ("h", Arc::new(Float16Array::from(vec![Some(half::f16::from_f32(1.0)), None, Some(half::f16::from_f32(-2.0))])), true),
        ("u", Arc::new(UInt32Array::from(vec![0, u32::MAX, 7])), false),
    ])
}
fn pq_views() -> RecordBatch {
    batch(vec![
        ("sv", Arc::new(StringViewArray::from(vec![Some("sh\u{f6}rt"), None, Some("a string l\u{f6}nger than twelve bytes"), Some("")])), true),
        ("d", Arc::new(b_dict().column(0).clone()) as ArrayRef, true),
    ])
}

/// dictionary-typed columns (read back through the dictionary-preserving reader because the embedded
/// Arrow schema is kept) whose index pages contain RLE runs (>= 8 equal keys) and bit-packed groups
fn pq_dict_runs() -> RecordBatch {
    let words = ["red", "green", "blue"];
    let rows: Vec<Option<usize>> = (0..24).map(|i| match i { 0..=9 => Some(2), 10 => None, 11..=13 => Some(i % 3), 14..=22 => Some(1), _ => Some(0) }).collect();
    let d8: DictionaryArray<Int8Type> = rows.iter().map(|r| r.map(|i| words[i])).collect();
    let keys = Int16Array::from(rows.iter().map(|r| r.map(|i| i as i16)).collect::<Vec<_>>());
    let vals = BinaryArray::from(vec![&b"\x00\x01"[..], &b"zz"[..], &b""[..]]);
    let d16 = DictionaryArray::<Int16Type>::try_new(keys, Arc::new(vals)).unwrap();
    batch(vec![("d8", Arc::new(d8), true), ("d16", Arc::new(d16), true)])
}

/// Utf8View columns written with the two DELTA byte-array encodings (read back as views because the embedded
/// Arrow schema is kept); multi-byte characters at value boundaries
fn pq_view_deltas() -> RecordBatch {
    let v = vec![Some("\u{e9}t\u{e9}"), Some("\u{e9}t\u{e9} de plus de douze octets"), None, Some("\u{fc}"), Some("\u{e9}ta"), Some("")];
    batch(vec![("dl", Arc::new(StringViewArray::from(v.clone())), true), ("db", Arc::new(StringViewArray::from(v)), true)])
}

fn base(c: Compression, v2: bool) -> WriterPropertiesBuilder {
    WriterProperties::builder()
        .set_compression(c)
        .set_writer_version(if v2 { WriterVersion::PARQUET_2_0 } else { WriterVersion::PARQUET_1_0 })
        .set_created_by("c08".to_string())
        .set_statistics_enabled(EnabledStatistics::Chunk)
        .set_offset_index_disabled(true)
}

fn parquet_entries(out: &mut Vec<Entry>) {
    let cp = |s: &str| ColumnPath::from(s);
    let sets: Vec<(&str, Vec<RecordBatch>, WriterProperties, bool, bool)> = vec![
        ("plain-v1-uncomp", vec![pq_flat()], base(Compression::UNCOMPRESSED, false).set_dictionary_enabled(false).set_encoding(Encoding::PLAIN).build(), true, false),
        ("dict-v1-snappy", vec![pq_flat()], base(Compression::SNAPPY, false).set_dictionary_enabled(true).set_statistics_enabled(EnabledStatistics::None).build(), true, false),
        ("plain-v2-zstd", vec![pq_flat()], base(Compression::ZSTD(Default::default()), true).set_dictionary_enabled(false).set_statistics_enabled(EnabledStatistics::None).build(), true, false),
        ("dict-v2-uncomp", vec![pq_strs()], base(Compression::UNCOMPRESSED, true).set_dictionary_enabled(true).set_statistics_enabled(EnabledStatistics::None).build(), true, false),
        (
            "delta-v2-uncomp",
            vec![pq_strs()],
            base(Compression::UNCOMPRESSED, true)
                .set_dictionary_enabled(false)
                .set_column_encoding(cp("s"), Encoding::DELTA_BYTE_ARRAY)
                .set_column_encoding(cp("t"), Encoding::DELTA_LENGTH_BYTE_ARRAY)
                .set_column_encoding(cp("y"), Encoding::DELTA_LENGTH_BYTE_ARRAY)
                .set_column_encoding(cp("n"), Encoding::DELTA_BINARY_PACKED)
                .set_column_encoding(cp("m"), Encoding::DELTA_BINARY_PACKED)
                .set_statistics_enabled(EnabledStatistics::None)
                .build(),
            true,
            false,
        ),
        ("bss-v1-lz4raw", vec![pq_bss()], base(Compression::LZ4_RAW, false).set_dictionary_enabled(false).set_encoding(Encoding::BYTE_STREAM_SPLIT).set_statistics_enabled(EnabledStatistics::None).build(), true, false),
        ("rle-bool-v2-gzip", vec![pq_bools()], base(Compression::GZIP(Default::default()), true).set_dictionary_enabled(false).set_encoding(Encoding::RLE).build(), true, false),
        ("nested-list-v1-brotli", vec![pq_nested_list()], base(Compression::BROTLI(Default::default()), false).set_statistics_enabled(EnabledStatistics::None).build(), true, false),
        ("nested-list-v2-uncomp", vec![pq_nested_list()], base(Compression::UNCOMPRESSED, true).set_dictionary_enabled(false).set_statistics_enabled(EnabledStatistics::None).build(), true, false),
        ("struct-map-v2-snappy", vec![pq_struct_map()], base(Compression::SNAPPY, true).set_statistics_enabled(EnabledStatistics::None).build(), true, false),
        ("types-v1-lz4", vec![pq_types()], base(Compression::LZ4, false).set_dictionary_enabled(false).set_statistics_enabled(EnabledStatistics::None).build(), true, false),
        (
            "pageidx-v1-uncomp",
            vec![batch(vec![pq_flat_col("i"), pq_flat_col("s")])],
            base(Compression::UNCOMPRESSED, false)
                .set_dictionary_enabled(false)
                .set_offset_index_disabled(false)
                .set_statistics_enabled(EnabledStatistics::Page)
                .set_data_page_row_count_limit(2)
                .set_write_batch_size(2)
                .build(),
            true,
            true,
        ),
        (
            "pageidx-v2-dict-snappy",
            vec![batch(vec![pq_flat_col("l"), pq_flat_col("s")])],
            base(Compression::SNAPPY, true)
                .set_dictionary_enabled(true)
                .set_offset_index_disabled(false)
                .set_statistics_enabled(EnabledStatistics::Page)
                .set_data_page_row_count_limit(3)
                .set_write_batch_size(3)
                .build(),
            true,
            true,
        ),
        (
            "two-rowgroups-bloom",
            vec![batch(vec![pq_flat_col("i"), pq_flat_col("d")])],
            base(Compression::UNCOMPRESSED, false).set_max_row_group_row_count(Some(3)).set_statistics_enabled(EnabledStatistics::None).set_column_bloom_filter_enabled(cp("i"), true).set_column_bloom_filter_max_ndv(cp("i"), 4).build(),
            true,
            false,
        ),
        ("views-arrowmeta-v1", vec![pq_views()], base(Compression::UNCOMPRESSED, false).set_statistics_enabled(EnabledStatistics::None).build(), false, false),
        ("dictcols-runs-arrowmeta-v1", vec![pq_dict_runs()], base(Compression::UNCOMPRESSED, false).set_dictionary_enabled(true).set_statistics_enabled(EnabledStatistics::None).build(), false, false),
        (
            "views-delta-arrowmeta-v2",
            vec![pq_view_deltas()],
            base(Compression::UNCOMPRESSED, true)
                .set_dictionary_enabled(false)
                .set_column_encoding(cp("dl"), Encoding::DELTA_LENGTH_BYTE_ARRAY)
                .set_column_encoding(cp("db"), Encoding::DELTA_BYTE_ARRAY)
                .set_statistics_enabled(EnabledStatistics::None)
                .build(),
            false,
            false,
        ),
        ("empty-v1", vec![b_empty_rows()], base(Compression::UNCOMPRESSED, false).build(), true, false),
    ];
    for (name, batches, props, skip_meta, page_index) in sets {
        let bytes = pq_write(&batches, props, skip_meta);
        let bounds = pq_bounds(&bytes);
        let mut readers = vec![Rd::PqMeta, Rd::PqArrow];
        if page_index {
            readers.push(Rd::PqArrowIdx);
            readers.push(Rd::PqArrowSel);
        }
        out.push(Entry { name: format!("parquet/{name}"), fmt: Fmt::Parquet, segs: vec![bytes.len()], bytes, schema: None, avro: None, page_index, bounds, readers });
    }
}

fn pq_flat_col(name: &str) -> (&str, ArrayRef, bool) {
    let b = pq_flat();
    let i = b.schema().index_of(name).unwrap();
    let nullable = b.schema().field(i).is_nullable();
    (["i", "l", "d", "b", "s"].into_iter().find(|n| *n == name).unwrap(), b.column(i).clone(), nullable)
}

// ------------------------------------------------------------------------------------------------
// Avro

fn avro_simple() -> RecordBatch {
    batch(vec![
        ("id", Arc::new(Int64Array::from(vec![1, -2, 300])), false),
        ("n", Arc::new(Int32Array::from(vec![Some(7), None, Some(-1)])), true),
        ("name", Arc::new(StringArray::from(vec!["ann", "", "cl\u{e9}o"])), false),
        ("x", Arc::new(Float64Array::from(vec![Some(0.5), None, Some(-2.0)])), true),
        ("ok", Arc::new(BooleanArray::from(vec![true, false, true])), false),
        ("raw", Arc::new(BinaryArray::from(vec![&b"\x00\x01"[..], &b""[..], &b"zz"[..]])), false),
    ])
}
fn avro_nested() -> RecordBatch {
    let mut lb = ListBuilder::new(Int32Builder::new()).with_field(Field::new_list_field(DataType::Int32, false));
    lb.append_value([Some(1), Some(2)]);
    lb.append_value([]);
    lb.append_value([Some(3)]);
    let l = lb.finish();
    let a = Arc::new(Int32Array::from(vec![1, 2, 3])) as ArrayRef;
    let b = Arc::new(StringArray::from(vec![Some("w"), None, Some("y")])) as ArrayRef;
    let fields = Fields::from(vec![Field::new("a", DataType::Int32, false), Field::new("b", DataType::Utf8, true)]);
    let s = StructArray::new(fields, vec![a, b], None);
    batch(vec![("l", Arc::new(l), false), ("st", Arc::new(s), false), ("f", Arc::new(Float32Array::from(vec![1.0f32, 2.0, 3.0])), false)])
}

fn avro_ocf(b: &[RecordBatch], codec: Option<arrow_avro::compression::CompressionCodec>) -> Vec<u8> {
    let schema = (*b[0].schema()).clone();
    let mut w = arrow_avro::writer::WriterBuilder::new(schema).with_compression(codec).build::<_, arrow_avro::writer::format::AvroOcfFormat>(Vec::new()).expect("avro ocf writer");
    for x in b {
        w.write(x).expect("avro write");
    }
    w.finish().expect("avro finish");
    let mut bytes = w.into_inner();
    // the writer draws the 16-byte sync marker from an RNG: pin it, the corpus must be the same in
    // every process (any 16 bytes are a valid marker)
    let sync = bytes[bytes.len() - 16..].to_vec();
    for p in find_all(&bytes.clone(), &sync) {
        bytes[p..p + 16].copy_from_slice(b"C08-sync-marker!");
    }
    bytes
}

fn find_all(hay: &[u8], needle: &[u8]) -> Vec<usize> {
    let mut v = vec![];
    if needle.is_empty() || hay.len() < needle.len() {
        return v;
    }
    for i in 0..=hay.len() - needle.len() {
        if &hay[i..i + needle.len()] == needle {
            v.push(i);
        }
    }
    v
}

fn avro_entries(out: &mut Vec<Entry>) {
    use arrow_avro::compression::CompressionCodec as C;
    let sets: Vec<(&str, Vec<RecordBatch>, Option<C>)> = vec![
        ("simple-null", vec![avro_simple()], None),
        ("simple-2blocks", vec![avro_simple(), avro_simple()], None),
        ("simple-deflate", vec![avro_simple()], Some(C::Deflate)),
        ("simple-snappy", vec![avro_simple()], Some(C::Snappy)),
        ("simple-zstd", vec![avro_simple()], Some(C::ZStandard)),
        ("simple-bzip2", vec![avro_simple()], Some(C::Bzip2)),
        ("simple-xz", vec![avro_simple()], Some(C::Xz)),
        ("nested-null", vec![avro_nested()], None),
        ("nested-deflate", vec![avro_nested()], Some(C::Deflate)),
    ];
    for (name, b, codec) in sets {
        let bytes = avro_ocf(&b, codec);
        let sync = bytes[bytes.len() - 16..].to_vec();
        let mut bounds = vec![0, 4];
        for p in find_all(&bytes, &sync) {
            bounds.push(p);
            bounds.push(p + 16);
        }
        bounds.sort();
        bounds.dedup();
        out.push(Entry { name: format!("avro-ocf/{name}"), fmt: Fmt::AvroOcf, segs: vec![bytes.len()], bytes, schema: None, avro: None, page_index: false, bounds, readers: vec![Rd::AvroOcfReader] });
    }
    // single-object encoded frames
    let soe: Vec<(&str, RecordBatch, AvroFp)> = vec![("simple-rabin", avro_simple(), AvroFp::Rabin), ("nested-rabin", avro_nested(), AvroFp::Rabin), ("simple-confluent", avro_simple(), AvroFp::Id(7))];
    for (name, b, fp) in soe {
        let arrow_schema = (*b.schema()).clone();
        let avro_schema = arrow_avro::schema::AvroSchema::try_from(&arrow_schema).expect("avro schema");
        let json = avro_schema.json_string.clone();
        let mut md = HashMap::new();
        md.insert(arrow_avro::schema::SCHEMA_METADATA_KEY.to_string(), json.clone());
        let with_md = Schema::new_with_metadata(arrow_schema.fields().clone(), md);
        let b2 = RecordBatch::try_new(Arc::new(with_md.clone()), b.columns().to_vec()).unwrap();
        let strat = match fp {
            AvroFp::Rabin => arrow_avro::schema::FingerprintStrategy::Rabin,
            AvroFp::Id(i) => arrow_avro::schema::FingerprintStrategy::Id(i),
        };
        let mut enc = arrow_avro::writer::WriterBuilder::new(with_md).with_fingerprint_strategy(strat).build_encoder::<arrow_avro::writer::format::AvroSoeFormat>().expect("avro encoder");
        enc.encode(&b2).expect("avro encode");
        let rows = enc.flush();
        let bytes = rows.bytes().to_vec();
        let bounds = rows.offsets().to_vec();
        out.push(Entry { name: format!("avro-soe/{name}"), fmt: Fmt::AvroSoe, segs: vec![bytes.len()], bytes, schema: None, avro: Some((json, fp)), page_index: false, bounds, readers: vec![Rd::AvroDecoder] });
    }
}

// ------------------------------------------------------------------------------------------------
// CSV / JSON

fn text_batch() -> RecordBatch {
    batch(vec![
        ("i", Arc::new(Int64Array::from(vec![Some(1), None, Some(-30), Some(4000)])), true),
        ("f", Arc::new(Float64Array::from(vec![Some(1.5), Some(-2.25e10), None, Some(0.0)])), true),
        ("b", Arc::new(BooleanArray::from(vec![Some(true), Some(false), None, Some(true)])), true),
        ("s", Arc::new(StringArray::from(vec![Some("plain"), Some("with,comma"), Some("quo\"te"), None])), true),
        ("d", Arc::new(Date32Array::from(vec![Some(0), Some(19000), None, Some(-365)])), true),
        ("t", Arc::new(TimestampMillisecondArray::from(vec![Some(0), Some(1_600_000_000_123), None, Some(-1)])), true),
    ])
}
fn json_batch() -> RecordBatch {
    let t = text_batch();
    let l = b_list().column(0).clone();
    let st = b_struct().column(0).clone();
    let mut cols: Vec<(&str, ArrayRef, bool)> = vec![("i", t.column(0).clone(), true), ("f", t.column(1).clone(), true), ("b", t.column(2).clone(), true)];
    cols.push(("s", Arc::new(StringArray::from(vec![Some("plain"), Some("esc\"\\\n\t"), Some("\u{e9}\u{1F600}"), None])), true));
    cols.push(("l", l, true));
    cols.push(("st", st, true));
    cols.push(("m", Arc::new(Decimal128Array::from(vec![Some(12345), None, Some(-1), Some(0)]).with_precision_and_scale(10, 2).unwrap()), true));
    batch(cols)
}

fn line_bounds(bytes: &[u8]) -> Vec<usize> {
    let mut v = vec![0];
    for (i, b) in bytes.iter().enumerate() {
        if *b == b'\n' {
            v.push(i + 1);
        }
    }
    v.push(bytes.len());
    v.dedup();
    v
}

fn text_entries(out: &mut Vec<Entry>) {
    let t = text_batch();
    // csv with header
    let mut w = arrow_csv::WriterBuilder::new().with_header(true).build(Vec::new());
    w.write(&t).unwrap();
    let bytes = w.into_inner();
    out.push(Entry { name: "csv/header".into(), fmt: Fmt::Csv, segs: vec![bytes.len()], bounds: line_bounds(&bytes), bytes, schema: Some(t.schema()), avro: None, page_index: false, readers: vec![Rd::CsvReader, Rd::CsvInfer] });
    let p = b_prim();
    let mut w = arrow_csv::WriterBuilder::new().with_header(true).with_delimiter(b';').build(Vec::new());
    w.write(&p).unwrap();
    let bytes = w.into_inner();
    out.push(Entry { name: "csv/semicolon".into(), fmt: Fmt::Csv, segs: vec![bytes.len()], bounds: line_bounds(&bytes), bytes, schema: Some(p.schema()), avro: None, page_index: false, readers: vec![Rd::CsvReader, Rd::CsvInfer] });
    // json lines
    let j = json_batch();
    let mut w = arrow_json::LineDelimitedWriter::new(Vec::new());
    w.write(&j).unwrap();
    w.finish().unwrap();
    let bytes = w.into_inner();
    out.push(Entry { name: "json/nested".into(), fmt: Fmt::Json, segs: vec![bytes.len()], bounds: line_bounds(&bytes), bytes, schema: Some(j.schema()), avro: None, page_index: false, readers: vec![Rd::JsonReader, Rd::JsonInfer] });
    let mut w = arrow_json::LineDelimitedWriter::new(Vec::new());
    w.write(&t).unwrap();
    w.finish().unwrap();
    let bytes = w.into_inner();
    out.push(Entry { name: "json/flat".into(), fmt: Fmt::Json, segs: vec![bytes.len()], bounds: line_bounds(&bytes), bytes, schema: Some(t.schema()), avro: None, page_index: false, readers: vec![Rd::JsonReader, Rd::JsonInfer] });
}

// ------------------------------------------------------------------------------------------------
// Variant

fn variant_entries(out: &mut Vec<Entry>) {
    use parquet_variant::{Variant, VariantBuilder, VariantDecimal4, VariantDecimal8, VariantDecimal16};
    let mut push = |name: &str, m: Vec<u8>, v: Vec<u8>| {
        let mut bytes = m.clone();
        bytes.extend_from_slice(&v);
        out.push(Entry { name: format!("variant/{name}"), fmt: Fmt::Variant, segs: vec![m.len(), bytes.len()], bounds: vec![m.len()], bytes, schema: None, avro: None, page_index: false, readers: vec![Rd::VariantTryNew] });
    };
    let prim = |v: Variant| {
        let mut b = VariantBuilder::new();
        b.append_value(v);
        b.finish()
    };
    let date = chrono_date();
    let prims: Vec<(&str, Variant)> = vec![
        ("null", Variant::Null),
        ("true", Variant::BooleanTrue),
        ("false", Variant::BooleanFalse),
        ("int8", Variant::Int8(-5)),
        ("int16", Variant::Int16(-300)),
        ("int32", Variant::Int32(70000)),
        ("int64", Variant::Int64(1 << 40)),
        ("float", Variant::Float(1.5)),
        ("double", Variant::Double(-2.25)),
        ("decimal4", Variant::Decimal4(VariantDecimal4::try_new(1234, 2).unwrap())),
        ("decimal8", Variant::Decimal8(VariantDecimal8::try_new(-12345678901, 3).unwrap())),
        ("decimal16", Variant::Decimal16(VariantDecimal16::try_new(1i128 << 70, 4).unwrap())),
        ("binary", Variant::Binary(b"\x00\x01\xff")),
        ("string-long", Variant::String("a long string that does not fit the short string form because it is longer than sixty-three bytes")),
        ("string-short", Variant::from("short")),
        ("uuid", Variant::Uuid(parquet_variant::Uuid::from_u128(0x0123_4567_89ab_cdef_0123_4567_89ab_cdef))),
    ];
    for (n, v) in prims {
        let (m, val) = prim(v);
        push(n, m, val);
    }
    for (n, v) in date {
        let (m, val) = prim(v);
        push(n, m, val);
    }
    {
        let mut b = VariantBuilder::new();
        let mut o = b.new_object();
        o.insert("a", 1i8);
        o.insert("b", "x");
        {
            let mut inner = o.new_object("c");
            inner.insert("d", true);
            inner.insert("a", 2.5f64);
            inner.finish();
        }
        {
            let mut l = o.new_list("e");
            l.append_value(1i32);
            l.append_value("two");
            l.finish();
        }
        o.finish();
        let (m, v) = b.finish();
        push("object", m, v);
    }
    {
        let mut b = VariantBuilder::new();
        let mut l = b.new_list();
        l.append_value(1i8);
        l.append_value("two");
        {
            let mut i = l.new_list();
            i.append_value(3i64);
            i.finish();
        }
        {
            let mut o = l.new_object();
            o.insert("k", ());
            o.finish();
        }
        l.finish();
        let (m, v) = b.finish();
        push("list", m, v);
    }
    {
        let mut b = VariantBuilder::new();
        b.new_object().finish();
        let (m, v) = b.finish();
        push("object-empty", m, v);
        let mut b = VariantBuilder::new();
        b.new_list().finish();
        let (m, v) = b.finish();
        push("list-empty", m, v);
    }
    {
        // sorted dictionary, several fields
        let mut b = VariantBuilder::new().with_field_names(["aa", "bb", "cc", "dd"]);
        let mut o = b.new_object();
        o.insert("dd", 4i8);
        o.insert("aa", 1i8);
        o.insert("cc", "three");
        o.finish();
        let (m, v) = b.finish();
        push("object-sorted-dict", m, v);
    }
    {
        // > 255 elements: is_large list with 2-byte offsets
        let mut b = VariantBuilder::new();
        let mut l = b.new_list();
        for i in 0..260 {
            l.append_value((i % 100) as i8);
        }
        l.finish();
        let (m, v) = b.finish();
        push("list-large", m, v);
    }
}

fn chrono_date() -> Vec<(&'static str, parquet_variant::Variant<'static, 'static>)> {
    // go through the arrow temporal helpers to avoid a direct chrono dependency
    use parquet_variant::Variant;
    let mut out = vec![];
    let d = arrow_array::temporal_conversions::as_date::<Date32Type>(19000).unwrap();
    out.push(("date", Variant::Date(d)));
    let ts = arrow_array::temporal_conversions::as_datetime::<TimestampMicrosecondType>(1_600_000_000_123_456).unwrap();
    out.push(("timestamp-ntz-micros", Variant::TimestampNtzMicros(ts)));
    out.push(("timestamp-micros", Variant::TimestampMicros(ts.and_utc())));
    let tn = arrow_array::temporal_conversions::as_datetime::<TimestampNanosecondType>(1_600_000_000_123_456_789).unwrap();
    out.push(("timestamp-ntz-nanos", Variant::TimestampNtzNanos(tn)));
    out.push(("timestamp-nanos", Variant::TimestampNanos(tn.and_utc())));
    let t = arrow_array::temporal_conversions::as_time::<Time64MicrosecondType>(3_723_000_004).unwrap();
    out.push(("time", Variant::Time(t)));
    out
}

// ------------------------------------------------------------------------------------------------

pub fn build() -> Vec<Entry> {
    let mut out = vec![];
    let t = std::time::Instant::now();
    let dbg = std::env::var_os("C08_TIMING").is_some();
    ipc_entries(&mut out);
    if dbg { eprintln!("ipc {:?}", t.elapsed()); }
    flight_entries(&mut out);
    if dbg { eprintln!("flight {:?}", t.elapsed()); }
    parquet_entries(&mut out);
    if dbg { eprintln!("parquet {:?}", t.elapsed()); }
    avro_entries(&mut out);
    if dbg { eprintln!("avro {:?}", t.elapsed()); }
    text_entries(&mut out);
    variant_entries(&mut out);
    if dbg { eprintln!("all {:?}", t.elapsed()); }
    let _ = Buffer::from(vec![0u8]);
    out
}
