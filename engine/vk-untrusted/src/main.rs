mod c08;
mod corpus;
mod meter;
mod mutate;
mod readers;

#[global_allocator]
static GLOBAL: meter::Meter = meter::Meter;

fn main() {
    let ctx = vcore::Ctx::from_args();
    match ctx.prop.as_str() {
        "C08" => c08::run(&ctx),
        other => {
            eprintln!("MACHINERY: vk-untrusted does not serve property {other:?}");
            std::process::exit(2)
        }
    }
}
