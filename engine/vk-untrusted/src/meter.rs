//! Allocation meter: a `#[global_allocator]` that forwards to `System` and, while a case is being
//! metered on the current thread, tracks the bytes currently held by allocations made since the
//! meter was armed. A request that would push the held bytes above the bound is *refused*: the
//! refusal is reported on fd 1 (`A <idx> <requested> <held> <site>`) and the process exits with
//! `REFUSE_EXIT`. (An allocator must not unwind and `handle_alloc_error` aborts anyway, so leaving
//! the process is the only sound reaction; the parent attributes the death to the in-flight case
//! and restarts a worker after it.)
//!
//! Everything here is allocation-free on the fast path: the thread-locals are `const`-initialised
//! `Cell`s without destructors.
use std::alloc::{GlobalAlloc, Layout, System};
use std::cell::Cell;
use std::sync::atomic::{AtomicBool, AtomicU64, Ordering};

pub const REFUSE_EXIT: i32 = 86;

pub struct Meter;

thread_local! {
    static ACTIVE: Cell<bool> = const { Cell::new(false) };
    static HELD: Cell<isize> = const { Cell::new(0) };
    static PEAK: Cell<isize> = const { Cell::new(0) };
    static BOUND: Cell<isize> = const { Cell::new(isize::MAX) };
}

/// index of the case in flight (printed in the refusal line)
pub static CASE_IDX: AtomicU64 = AtomicU64::new(u64::MAX);

#[inline]
fn charge(delta: isize, requested: usize) {
    // `try_with`: never panic inside the allocator (thread teardown)
    let _ = ACTIVE.try_with(|a| {
        if !a.get() {
            return;
        }
        let held = HELD.with(|h| {
            let v = h.get().saturating_add(delta);
            h.set(v);
            v
        });
        if delta > 0 {
            PEAK.with(|p| {
                if held > p.get() {
                    p.set(held)
                }
            });
            if held > BOUND.with(|b| b.get()) {
                a.set(false);
                refuse(requested, held);
            }
        }
    });
}

/// Requests of at least this size are served by anonymous `mmap` (page-aligned, lazily zero-filled)
/// instead of the system allocator. The system allocator zero-fills an over-aligned `alloc_zeroed`
/// request with an explicit `memset`, which makes every input that triggers the IPC reader's
/// documented 64 MiB pre-allocation cost tens of milliseconds; with `mmap` the untouched pages cost
/// nothing. Semantics for the library are unchanged (it gets zeroed / writable memory).
const BIG: usize = 1 << 20;
const PAGE: usize = 4096;

#[inline]
fn is_big(size: usize, align: usize) -> bool {
    size >= BIG && align <= PAGE
}
#[inline]
fn round_up(size: usize) -> usize {
    (size + PAGE - 1) & !(PAGE - 1)
}
unsafe fn big_alloc(size: usize) -> *mut u8 {
    let p = unsafe { libc::mmap(std::ptr::null_mut(), round_up(size), libc::PROT_READ | libc::PROT_WRITE, libc::MAP_PRIVATE | libc::MAP_ANONYMOUS, -1, 0) };
    if p == libc::MAP_FAILED { std::ptr::null_mut() } else { p as *mut u8 }
}
unsafe fn raw_alloc(l: Layout, zeroed: bool) -> *mut u8 {
    if is_big(l.size(), l.align()) {
        unsafe { big_alloc(l.size()) }
    } else if zeroed {
        unsafe { System.alloc_zeroed(l) }
    } else {
        unsafe { System.alloc(l) }
    }
}
unsafe fn raw_dealloc(p: *mut u8, l: Layout) {
    if is_big(l.size(), l.align()) {
        unsafe { libc::munmap(p as *mut libc::c_void, round_up(l.size())) };
    } else {
        unsafe { System.dealloc(p, l) }
    }
}

unsafe impl GlobalAlloc for Meter {
    unsafe fn alloc(&self, l: Layout) -> *mut u8 {
        charge(l.size() as isize, l.size());
        unsafe { raw_alloc(l, false) }
    }
    unsafe fn alloc_zeroed(&self, l: Layout) -> *mut u8 {
        charge(l.size() as isize, l.size());
        unsafe { raw_alloc(l, true) }
    }
    unsafe fn dealloc(&self, p: *mut u8, l: Layout) {
        charge(-(l.size() as isize), 0);
        unsafe { raw_dealloc(p, l) }
    }
    unsafe fn realloc(&self, p: *mut u8, l: Layout, new_size: usize) -> *mut u8 {
        charge(new_size as isize - l.size() as isize, new_size);
        let (ob, nb) = (is_big(l.size(), l.align()), is_big(new_size, l.align()));
        unsafe {
            match (ob, nb) {
                (false, false) => System.realloc(p, l, new_size),
                (true, true) => {
                    let q = libc::mremap(p as *mut libc::c_void, round_up(l.size()), round_up(new_size), libc::MREMAP_MAYMOVE);
                    if q == libc::MAP_FAILED { std::ptr::null_mut() } else { q as *mut u8 }
                }
                _ => {
                    let nl = Layout::from_size_align_unchecked(new_size, l.align());
                    let q = raw_alloc(nl, false);
                    if !q.is_null() {
                        std::ptr::copy_nonoverlapping(p, q, l.size().min(new_size));
                        raw_dealloc(p, l);
                    }
                    q
                }
            }
        }
    }
}

/// Arms the meter on this thread with `bound` bytes; the held-bytes counter restarts at 0.
pub fn arm(bound: usize) {
    HELD.with(|h| h.set(0));
    PEAK.with(|p| p.set(0));
    BOUND.with(|b| b.set(bound.min(isize::MAX as usize) as isize));
    ACTIVE.with(|a| a.set(true));
}

/// Disarms the meter and returns the peak of held bytes since `arm`.
pub fn disarm() -> usize {
    ACTIVE.with(|a| a.set(false));
    PEAK.with(|p| p.get()).max(0) as usize
}

/// When set (worker started with `--resolve`), a refusal symbolises its backtrace (slow: the
/// debug info of the whole binary is parsed) and reports `site:<call site>`; otherwise it reports the
/// raw return addresses relative to an anchor in the executable (`raw:<hex,...>`) and the parent
/// resolves each distinct raw stack once by re-running one representative case in resolve mode.
pub static RESOLVE: AtomicBool = AtomicBool::new(false);

/// repo-relative (or dependency-relative) path of a frame's source file, if it is library code
fn lib_path(path: &str) -> Option<String> {
    if let Some(p) = path.find("/repo/") {
        return Some(path[p + "/repo/".len()..].to_string());
    }
    None
}

/// Extracts the requesting call site from a rendered backtrace (`N: function` lines followed by
/// `at file:line:col` lines): the innermost frame whose source file is inside the arrow-rs repository
/// but not in `arrow-buffer` (whose frames are the generic allocation helpers), else the innermost
/// repository frame. Reported as `<repo-relative file>:<function without generics>`.
pub fn site_of(bt: &str) -> String {
    let mut first_lib: Option<String> = None;
    let mut cur_fn: Option<String> = None;
    for line in bt.lines() {
        let t = line.trim_start();
        if let Some(at) = t.strip_prefix("at ") {
            let path = at.rsplitn(3, ':').last().unwrap_or(at);
            if let (Some(rel), Some(f)) = (lib_path(path), cur_fn.as_ref()) {
                let site = format!("{rel}:{}", clean_fn(f));
                if rel.starts_with("arrow-buffer/") {
                    if first_lib.is_none() {
                        first_lib = Some(site);
                    }
                } else {
                    return site;
                }
            }
            continue;
        }
        // frame lines look like `12: function`
        if let Some((num, func)) = t.split_once(": ") {
            if !num.is_empty() && num.bytes().all(|b| b.is_ascii_digit()) {
                cur_fn = Some(func.trim().to_string());
            }
        }
    }
    first_lib.unwrap_or_else(|| "unknown".to_string())
}

/// function name without generic arguments, closure numbering and hash suffix
fn clean_fn(f: &str) -> String {
    let mut out = String::new();
    let mut depth = 0usize;
    for c in f.chars() {
        match c {
            '<' => depth += 1,
            '>' => depth = depth.saturating_sub(1),
            _ if depth == 0 => out.push(c),
            _ => {}
        }
    }
    if let Some(p) = out.rfind("::h") {
        let tail = &out[p + 3..];
        if tail.len() == 16 && tail.bytes().all(|b| b.is_ascii_hexdigit()) {
            out.truncate(p);
        }
    }
    vcore::strip_digits(&out)
}

#[cold]
#[inline(never)]
fn refuse(requested: usize, held: isize) -> ! {
    // the meter is disarmed (ACTIVE=false) so the allocations below are not charged
    let idx = CASE_IDX.load(Ordering::Relaxed);
    let site = if RESOLVE.load(Ordering::Relaxed) {
        // symbolising the whole binary can take many CPU seconds on a loaded machine: the case is over,
        // stop the CPU-time monitor from counting it
        CASE_IDX.store(u64::MAX, Ordering::Release);
        let bt = std::backtrace::Backtrace::force_capture();
        let txt = bt.to_string();
        if std::env::var_os("C08_DUMP_BT").is_some() {
            eprintln!("{txt}");
        }
        format!("site:{}", site_of(&txt))
    } else {
        let mut frames = [std::ptr::null_mut::<libc::c_void>(); 40];
        let n = unsafe { libc::backtrace(frames.as_mut_ptr(), frames.len() as i32) }.max(0) as usize;
        let anchor = refuse as *const () as usize as i128;
        let mut s = String::from("raw:");
        for f in &frames[..n.min(frames.len())] {
            let d = *f as usize as i128 - anchor;
            // frames outside the executable image (libc, libgcc) move with ASLR: leave them out
            if d.abs() < (1i128 << 30) {
                s.push_str(&format!("{d},"));
            }
        }
        s
    };
    crate::c08::on_refusal(idx, requested, held, &site)
}
