//! Mutation operators. Every operator is a finite, indexable family: `count(..)` and `apply(.., k)`.
use crate::corpus::{Entry, Fmt};

#[derive(Clone, Copy, PartialEq, Eq, Debug, PartialOrd, Ord)]
pub enum Op {
    /// every byte position x every single-bit flip
    Flip1,
    /// every byte position x every one of the 255 other byte values
    Byte255,
    /// every truncation length 0..len
    Trunc,
    /// 2-byte little-endian window overwrite
    Win2,
    /// 4-byte little-endian window overwrite
    Win4,
    /// 8-byte little-endian window overwrite
    Win8,
    /// the LEB128 varint starting at every position replaced by the unsigned encoding of each value
    VarU,
    /// ... by the zigzag encoding of each value
    VarZ,
}

impl Op {
    pub fn name(self) -> &'static str {
        match self {
            Op::Flip1 => "bitflip",
            Op::Byte255 => "byte255",
            Op::Trunc => "truncate",
            Op::Win2 => "win2",
            Op::Win4 => "win4",
            Op::Win8 => "win8",
            Op::VarU => "varint-u",
            Op::VarZ => "varint-zz",
        }
    }
    #[allow(dead_code)]
    pub fn from_name(s: &str) -> Option<Op> {
        [Op::Flip1, Op::Byte255, Op::Trunc, Op::Win2, Op::Win4, Op::Win8, Op::VarU, Op::VarZ].into_iter().find(|o| o.name() == s)
    }
}

/// the inflation value menu of the design: {0,1,0x7F,0x80,0xFFFF,2^31-1,2^31,2^32-1,2^63-1,-1,len,len+1}
pub fn values64(len: usize) -> Vec<u64> {
    vec![0, 1, 0x7F, 0x80, 0xFFFF, 0x7FFF_FFFF, 0x8000_0000, 0xFFFF_FFFF, 0x7FFF_FFFF_FFFF_FFFF, u64::MAX, len as u64, len as u64 + 1]
}
/// the same menu reduced to 32 bits (duplicates after truncation removed)
pub fn values32(len: usize) -> Vec<u32> {
    vec![0, 1, 0x7F, 0x80, 0xFFFF, 0x7FFF_FFFF, 0x8000_0000, 0xFFFF_FFFF, len as u32, len as u32 + 1]
}
/// 16-bit menu (flatbuffers vtable entries, Variant offsets, thrift i16)
pub fn values16(len: usize) -> Vec<u16> {
    vec![0, 1, 0x7F, 0x80, 0xFF, 0x7FFF, 0x8000, 0xFFFF, len as u16, (len as u16).wrapping_add(1)]
}

pub fn ops_for(fmt: Fmt, thorough: bool) -> Vec<Op> {
    // the 2-byte window is an addition to the design's operator list: thorough tier only
    let mut v = if thorough { vec![Op::Byte255, Op::Trunc, Op::Win2, Op::Win4, Op::Win8] } else { vec![Op::Flip1, Op::Trunc, Op::Win4, Op::Win8] };
    if fmt.has_varints() {
        v.push(Op::VarU);
        v.push(Op::VarZ);
    }
    v
}

pub fn count(e: &Entry, op: Op) -> u64 {
    let l = e.bytes.len() as u64;
    match op {
        Op::Flip1 => l * 8,
        Op::Byte255 => l * 255,
        Op::Trunc => l,
        Op::Win2 => l.saturating_sub(1) * 10,
        Op::Win4 => l.saturating_sub(3) * 10,
        Op::Win8 => l.saturating_sub(7) * 12,
        Op::VarU | Op::VarZ => l * 12,
    }
}

pub struct Mutated {
    pub bytes: Vec<u8>,
    /// segment end offsets after the mutation
    pub segs: Vec<usize>,
    pub desc: String,
}

fn remap(segs: &[usize], edit_start: usize, old_len: usize, new_len: usize, total: usize) -> Vec<usize> {
    // an edit replaced `old_len` bytes at `edit_start` by `new_len` bytes
    segs.iter()
        .map(|&s| {
            let v = if s <= edit_start {
                s
            } else if s >= edit_start + old_len {
                s + new_len - old_len
            } else {
                (edit_start + new_len).min(s)
            };
            v.min(total)
        })
        .collect()
}

pub fn uleb(mut v: u64) -> Vec<u8> {
    let mut out = vec![];
    loop {
        let b = (v & 0x7F) as u8;
        v >>= 7;
        if v == 0 {
            out.push(b);
            return out;
        }
        out.push(b | 0x80);
    }
}
pub fn zigzag(v: u64) -> u64 {
    let s = v as i64;
    ((s << 1) ^ (s >> 63)) as u64
}
/// length of the varint that starts at `p` (continuation bits; capped at 10 bytes and at the end)
pub fn varint_len(b: &[u8], p: usize) -> usize {
    let mut n = 0;
    while p + n < b.len() && n < 10 {
        n += 1;
        if b[p + n - 1] & 0x80 == 0 {
            break;
        }
    }
    n
}

pub fn apply(e: &Entry, op: Op, k: u64) -> Mutated {
    let src = &e.bytes;
    let len = src.len();
    let mut bytes = src.clone();
    let mut segs = e.segs.clone();
    let desc;
    match op {
        Op::Flip1 => {
            let (p, bit) = ((k / 8) as usize, (k % 8) as u8);
            bytes[p] ^= 1 << bit;
            desc = format!("flip bit {bit} of byte {p}");
        }
        Op::Byte255 => {
            let (p, d) = ((k / 255) as usize, (k % 255) as u8 + 1);
            // the other 255 values, enumerated as xor masks 1..=255
            bytes[p] ^= d;
            desc = format!("byte {p} ^= 0x{d:02x} (-> 0x{:02x})", bytes[p]);
        }
        Op::Trunc => {
            let n = k as usize;
            bytes.truncate(n);
            segs = segs.iter().map(|&s| s.min(n)).collect();
            desc = format!("truncate to {n} of {len} bytes");
        }
        Op::Win2 => {
            let vals = values16(len);
            let (p, v) = ((k / 10) as usize, vals[(k % 10) as usize]);
            bytes[p..p + 2].copy_from_slice(&v.to_le_bytes());
            desc = format!("bytes {p}..{} = u16le 0x{v:x}", p + 2);
        }
        Op::Win4 => {
            let vals = values32(len);
            let (p, v) = ((k / 10) as usize, vals[(k % 10) as usize]);
            bytes[p..p + 4].copy_from_slice(&v.to_le_bytes());
            desc = format!("bytes {p}..{} = u32le 0x{v:x}", p + 4);
        }
        Op::Win8 => {
            let vals = values64(len);
            let (p, v) = ((k / 12) as usize, vals[(k % 12) as usize]);
            bytes[p..p + 8].copy_from_slice(&v.to_le_bytes());
            desc = format!("bytes {p}..{} = u64le 0x{v:x}", p + 8);
        }
        Op::VarU | Op::VarZ => {
            let vals = values64(len);
            let (p, v) = ((k / 12) as usize, vals[(k % 12) as usize]);
            let old = varint_len(src, p);
            let enc = uleb(if op == Op::VarZ { zigzag(v) } else { v });
            bytes.splice(p..p + old, enc.iter().copied());
            segs = remap(&segs, p, old, enc.len(), bytes.len());
            desc = format!("varint at {p} ({old} bytes) = {}(0x{v:x}) ({} bytes)", if op == Op::VarZ { "zigzag" } else { "uleb" }, enc.len());
        }
    }
    Mutated { bytes, segs, desc }
}

/// cross-splice prefix(a, i) ++ suffix(b, j) over the structural boundaries of a and b
pub fn splice_count(a: &Entry, b: &Entry) -> u64 {
    (a.bounds.len() * b.bounds.len()) as u64
}
pub fn splice(a: &Entry, b: &Entry, k: u64) -> Mutated {
    let (ia, ib) = ((k as usize) / b.bounds.len(), (k as usize) % b.bounds.len());
    let (i, j) = (a.bounds[ia], b.bounds[ib]);
    let mut bytes = a.bytes[..i].to_vec();
    bytes.extend_from_slice(&b.bytes[j..]);
    // segments: a's segment ends <= i, then b's segment ends > j shifted
    let mut segs: Vec<usize> = a.segs.iter().copied().filter(|&s| s <= i && s > 0).collect();
    if a.segs.len() > 1 && segs.last().copied() != Some(i) && i > 0 && !a.segs.contains(&i) {
        segs.push(i);
    }
    if a.segs.len() > 1 {
        for &s in &b.segs {
            if s > j {
                segs.push(s - j + i);
            }
        }
        if segs.last().copied() != Some(bytes.len()) {
            segs.push(bytes.len());
        }
    } else {
        segs = vec![bytes.len()];
    }
    Mutated { bytes, segs, desc: format!("prefix({}, {i}) ++ suffix({}, {j})", a.name, b.name) }
}

/// every byte string of length <= 2, indexed 0..65793
pub const SHORT_STRINGS: u64 = 1 + 256 + 65536;
pub fn short_string(k: u64) -> Vec<u8> {
    if k == 0 {
        vec![]
    } else if k <= 256 {
        vec![(k - 1) as u8]
    } else {
        let v = k - 257;
        vec![(v >> 8) as u8, (v & 0xFF) as u8]
    }
}
