//! Reader entry points and the C08 oracle.
use crate::corpus::{AvroFp, Entry, Rd};
use arrow_array::{Array, ArrayRef, RecordBatch, UnionArray};
use arrow_schema::{ArrowError, DataType, SchemaRef, UnionMode};
use std::io::Cursor;

/// What a reader did with one input (no panic, no refusal: those are handled by the caller).
pub enum Outcome {
    /// reader returned an error; payload = short error class
    Err(String),
    /// reader returned data that passed the oracle; payload = summary
    Ok { batches: Vec<RecordBatch>, note: String },
    /// reader returned data that fails the oracle (fingerprint suffix, message)
    Invalid(String, String),
}

/// iteration guard: a reader over an n-byte input may not yield more than this many items
fn item_cap(n: usize) -> usize {
    10_000 + 16 * n
}

fn err_class(e: &ArrowError) -> String {
    let s = format!("{e:?}");
    let v: String = s.chars().take_while(|c| c.is_ascii_alphanumeric()).collect();
    if v.is_empty() { "Error".into() } else { v }
}
fn perr_class(e: &parquet::errors::ParquetError) -> String {
    let s = format!("{e:?}");
    let v: String = s.chars().take_while(|c| c.is_ascii_alphanumeric()).collect();
    format!("Parquet{v}")
}

/// supplementary union check (`validate_full` does not look at union type ids / offsets)
fn spec_validate(a: &dyn Array) -> Result<(), String> {
    match a.data_type() {
        DataType::Union(fields, mode) => {
            let u = a.as_any().downcast_ref::<UnionArray>().ok_or("union downcast")?;
            let ids: Vec<i8> = fields.iter().map(|(i, _)| i).collect();
            for i in 0..u.len() {
                let t = u.type_ids()[i];
                if !ids.contains(&t) {
                    return Err(format!("union type id {t} at {i} not declared"));
                }
                if *mode == UnionMode::Dense {
                    let o = u.offsets().ok_or("dense union without offsets")?[i];
                    let c = u.child(t);
                    if o < 0 || o as usize >= c.len() {
                        return Err(format!("dense union offset {o} at {i} out of child range {}", c.len()));
                    }
                }
            }
            for (id, _) in fields.iter() {
                spec_validate(u.child(id).as_ref())?;
            }
            Ok(())
        }
        DataType::Struct(_) => {
            let s = a.as_any().downcast_ref::<arrow_array::StructArray>().ok_or("struct downcast")?;
            for c in s.columns() {
                if c.len() != s.len() {
                    return Err(format!("struct child length {} != struct length {}", c.len(), s.len()));
                }
                spec_validate(c.as_ref())?;
            }
            Ok(())
        }
        _ => Ok(()),
    }
}

pub fn check_batch(b: &RecordBatch, schema: Option<&SchemaRef>) -> Result<(), (String, String)> {
    let bs = b.schema();
    if let Some(s) = schema {
        if s.fields() != bs.fields() {
            return Err(("batch-schema-mismatch".into(), format!("batch schema {bs:?} differs from reader schema {s:?}")));
        }
    }
    if bs.fields().len() != b.num_columns() {
        return Err(("batch-column-count".into(), format!("{} fields, {} columns", bs.fields().len(), b.num_columns())));
    }
    for (f, c) in bs.fields().iter().zip(b.columns()) {
        if f.data_type() != c.data_type() {
            return Err(("column-type-mismatch".into(), format!("field {} declared {:?}, column is {:?}", f.name(), f.data_type(), c.data_type())));
        }
        if c.len() != b.num_rows() {
            return Err(("column-length-mismatch".into(), format!("field {} has {} rows, batch has {}", f.name(), c.len(), b.num_rows())));
        }
        if !f.is_nullable() && c.null_count() > 0 {
            return Err(("nulls-in-non-nullable".into(), format!("field {} is non-nullable, column has {} nulls", f.name(), c.null_count())));
        }
        if let Err(e) = c.to_data().validate_full().or_else(|e| {
            // known false rejection of validate_full for sliced arrays (validity byte length compared with
            // data.offset although the NullBuffer carries its own offset): not a reader defect
            if e.to_string().contains("null_bit_buffer size too small") { Ok(()) } else { Err(e) }
        }) {
            return Err((format!("validate_full:{}:{}", type_class(c.data_type()), vcore::strip_digits(&e.to_string())), format!("field {} ({:?}): {e}", f.name(), f.data_type())));
        }
        if let Err(e) = spec_validate(c.as_ref()) {
            return Err((format!("spec:{}", vcore::strip_digits(&e)), format!("field {}: {e}", f.name())));
        }
        // the validator written from the format document (shares no code with validate_full: a defect in
        // arrow's own validation must not blind the oracle)
        if let Err(e) = vmodel::validate::spec_validate(&c.to_data()) {
            return Err((format!("format-spec:{}:{}", type_class(c.data_type()), e.split(':').next().unwrap_or("")), format!("field {} ({:?}): {e}", f.name(), f.data_type())));
        }
    }
    Ok(())
}

fn type_class(t: &DataType) -> String {
    let s = format!("{t:?}");
    s.chars().take_while(|c| c.is_ascii_alphanumeric()).collect()
}

fn collect<I, E>(it: I, schema: Option<SchemaRef>, cap: usize, ec: impl Fn(&E) -> String) -> Outcome
where
    I: Iterator<Item = Result<RecordBatch, E>>,
{
    let mut out = vec![];
    let mut rows = 0usize;
    for (n, r) in it.enumerate() {
        if n >= cap {
            return Outcome::Invalid("unbounded-iteration".into(), format!("reader yielded more than {cap} items"));
        }
        match r {
            Ok(b) => {
                if let Err((fp, m)) = check_batch(&b, schema.as_ref()) {
                    return Outcome::Invalid(fp, m);
                }
                rows += b.num_rows();
                if out.len() < 64 {
                    out.push(b);
                }
            }
            Err(e) => return Outcome::Err(format!("iter:{}", ec(&e))),
        }
    }
    Outcome::Ok { note: format!("batches={} rows={rows}", out.len()), batches: out }
}

pub fn flight_data(bytes: &[u8], segs: &[usize]) -> Vec<arrow_flight::FlightData> {
    let mut out = vec![];
    let mut prev = 0usize;
    let mut i = 0;
    while i + 1 < segs.len() {
        let h = &bytes[prev.min(bytes.len())..segs[i].min(bytes.len())];
        let b = &bytes[segs[i].min(bytes.len())..segs[i + 1].min(bytes.len())];
        prev = segs[i + 1];
        i += 2;
        out.push(arrow_flight::FlightData { flight_descriptor: None, data_header: bytes::Bytes::copy_from_slice(h), app_metadata: bytes::Bytes::new(), data_body: bytes::Bytes::copy_from_slice(b) });
    }
    // a truncation removes whole trailing messages
    while out.last().map(|f| f.data_header.is_empty() && f.data_body.is_empty()).unwrap_or(false) {
        out.pop();
    }
    out
}

pub fn run(rd: Rd, e: &Entry, bytes: &[u8], segs: &[usize]) -> Outcome {
    let cap = item_cap(bytes.len());
    match rd {
        Rd::IpcFileReader => {
            let r = match arrow_ipc::reader::FileReader::try_new(Cursor::new(bytes), None) {
                Ok(r) => r,
                Err(e) => return Outcome::Err(format!("open:{}", err_class(&e))),
            };
            let s = r.schema();
            collect(r, Some(s), cap, err_class)
        }
        Rd::IpcStreamReader => {
            let r = match arrow_ipc::reader::StreamReader::try_new(Cursor::new(bytes), None) {
                Ok(r) => r,
                Err(e) => return Outcome::Err(format!("open:{}", err_class(&e))),
            };
            let s = r.schema();
            collect(r, Some(s), cap, err_class)
        }
        Rd::IpcStreamDecoder => {
            let mut buf = arrow_buffer::Buffer::from(bytes.to_vec());
            let mut d = arrow_ipc::reader::StreamDecoder::new();
            let mut out = vec![];
            let mut rows = 0;
            let mut n = 0;
            // the documented driving loop
            while !buf.is_empty() {
                n += 1;
                if n > cap {
                    return Outcome::Invalid("unbounded-iteration".into(), "StreamDecoder::decode made no progress".into());
                }
                match d.decode(&mut buf) {
                    Ok(Some(b)) => {
                        let s = d.schema();
                        if let Err((fp, m)) = check_batch(&b, s.as_ref()) {
                            return Outcome::Invalid(fp, m);
                        }
                        rows += b.num_rows();
                        out.push(b);
                    }
                    Ok(None) => {}
                    Err(e) => return Outcome::Err(format!("decode:{}", err_class(&e))),
                }
            }
            if let Err(e) = d.finish() {
                return Outcome::Err(format!("finish:{}", err_class(&e)));
            }
            Outcome::Ok { note: format!("batches={} rows={rows}", out.len()), batches: out }
        }
        Rd::FlightToBatches => {
            let fds = flight_data(bytes, segs);
            match arrow_flight::utils::flight_data_to_batches(&fds) {
                Ok(bs) => {
                    let mut rows = 0;
                    for b in &bs {
                        if let Err((fp, m)) = check_batch(b, None) {
                            return Outcome::Invalid(fp, m);
                        }
                        rows += b.num_rows();
                    }
                    if bs.windows(2).any(|w| w[0].schema() != w[1].schema()) {
                        return Outcome::Invalid("batch-schema-mismatch".into(), "batches of one flight stream have different schemas".into());
                    }
                    Outcome::Ok { note: format!("batches={} rows={rows}", bs.len()), batches: bs }
                }
                Err(e) => Outcome::Err(err_class(&e)),
            }
        }
        Rd::FlightDecoder => {
            use arrow_flight::decode::{DecodedPayload, FlightDataDecoder};
            use futures::StreamExt;
            let fds = flight_data(bytes, segs);
            let nmsg = fds.len();
            let st = futures::stream::iter(fds.into_iter().map(Ok::<_, arrow_flight::error::FlightError>));
            let mut dec = FlightDataDecoder::new(st);
            let mut out = vec![];
            let mut rows = 0;
            let mut schema: Option<SchemaRef> = None;
            let mut n = 0;
            loop {
                n += 1;
                if n > nmsg + 8 {
                    return Outcome::Invalid("unbounded-iteration".into(), "FlightDataDecoder yielded more items than messages".into());
                }
                match futures::executor::block_on(dec.next()) {
                    None => break,
                    Some(Err(e)) => {
                        let s = format!("{e:?}");
                        let v: String = s.chars().take_while(|c| c.is_ascii_alphanumeric()).collect();
                        return Outcome::Err(format!("Flight{v}"));
                    }
                    Some(Ok(d)) => match d.payload {
                        DecodedPayload::None => {}
                        DecodedPayload::Schema(s) => schema = Some(s),
                        DecodedPayload::RecordBatch(b) => {
                            if let Err((fp, m)) = check_batch(&b, schema.as_ref()) {
                                return Outcome::Invalid(fp, m);
                            }
                            rows += b.num_rows();
                            out.push(b);
                        }
                    },
                }
            }
            Outcome::Ok { note: format!("batches={} rows={rows}", out.len()), batches: out }
        }
        Rd::PqMeta => {
            use parquet::file::metadata::{PageIndexPolicy, ParquetMetaDataReader};
            let b = bytes::Bytes::copy_from_slice(bytes);
            match ParquetMetaDataReader::new().with_page_index_policy(PageIndexPolicy::Optional).parse_and_finish(&b) {
                Ok(md) => {
                    // touch everything a consumer would look at
                    let mut cols = 0usize;
                    for rg in md.row_groups() {
                        for c in rg.columns() {
                            cols += 1;
                            let _ = c.byte_range();
                            let _ = c.statistics().map(|s| (s.min_bytes_opt().map(|b| b.len()), s.max_bytes_opt().map(|b| b.len()), s.null_count_opt()));
                        }
                    }
                    let sd = md.file_metadata().schema_descr();
                    let conv = parquet::arrow::parquet_to_arrow_schema(sd, md.file_metadata().key_value_metadata());
                    let note = format!("rgs={} cols={cols} ci={} oi={} arrow={}", md.num_row_groups(), md.page_index().map(|p| p.has_column_indexes()).unwrap_or(false), md.page_index().map(|p| p.has_offset_indexes()).unwrap_or(false), conv.is_ok());
                    Outcome::Ok { batches: vec![], note }
                }
                Err(e) => Outcome::Err(perr_class(&e)),
            }
        }
        Rd::PqArrow | Rd::PqArrowIdx | Rd::PqArrowSel => {
            use parquet::arrow::arrow_reader::{ArrowReaderOptions, ParquetRecordBatchReaderBuilder, RowSelection, RowSelector};
            use parquet::file::metadata::PageIndexPolicy;
            let b = bytes::Bytes::copy_from_slice(bytes);
            let pol = if rd == Rd::PqArrow { PageIndexPolicy::Skip } else { PageIndexPolicy::Required };
            let opts = ArrowReaderOptions::new().with_page_index_policy(pol);
            let mut builder = match ParquetRecordBatchReaderBuilder::try_new_with_options(b, opts) {
                Ok(x) => x,
                Err(e) => return Outcome::Err(format!("open:{}", perr_class(&e))),
            };
            builder = builder.with_batch_size(4);
            if rd == Rd::PqArrowSel {
                // rows 1, 3 and 4..: page skipping through the offset index
                builder = builder.with_row_selection(RowSelection::from(vec![RowSelector::skip(1), RowSelector::select(1), RowSelector::skip(1), RowSelector::select(1), RowSelector::select(1 << 20)]));
            }
            let r = match builder.build() {
                Ok(r) => r,
                Err(e) => return Outcome::Err(format!("build:{}", perr_class(&e))),
            };
            let s = arrow_array::RecordBatchReader::schema(&r);
            collect(r, Some(s), cap, err_class)
        }
        Rd::AvroOcfReader => {
            let r = match arrow_avro::reader::ReaderBuilder::new().with_batch_size(4).build(Cursor::new(bytes)) {
                Ok(r) => r,
                Err(e) => return Outcome::Err(format!("open:{}", err_class(&e))),
            };
            let s = r.schema();
            collect(r, Some(s), cap, err_class)
        }
        Rd::AvroDecoder => {
            use arrow_avro::schema::{AvroSchema, Fingerprint, FingerprintAlgorithm, SchemaStore};
            let (json, fp) = e.avro.as_ref().expect("avro entry");
            let mut store = match fp {
                AvroFp::Rabin => SchemaStore::new(),
                AvroFp::Id(_) => SchemaStore::new_with_type(FingerprintAlgorithm::Id),
            };
            match fp {
                AvroFp::Rabin => {
                    store.register(AvroSchema::new(json.clone())).expect("register");
                }
                AvroFp::Id(i) => {
                    store.set(Fingerprint::Id(*i), AvroSchema::new(json.clone())).expect("set");
                }
            }
            let mut dec = match arrow_avro::reader::ReaderBuilder::new().with_writer_schema_store(store).with_batch_size(2).build_decoder() {
                Ok(d) => d,
                Err(e) => return Outcome::Err(format!("build:{}", err_class(&e))),
            };
            let s = dec.schema();
            let mut out = vec![];
            let mut rows = 0;
            let mut off = 0usize;
            let mut n = 0;
            // feed everything; flush whenever the decoder stops early (batch full) or input ends
            loop {
                n += 1;
                if n > cap {
                    return Outcome::Invalid("unbounded-iteration".into(), "avro Decoder::decode made no progress".into());
                }
                let consumed = match dec.decode(&bytes[off..]) {
                    Ok(c) => c,
                    Err(e) => return Outcome::Err(format!("decode:{}", aerr_class(&e))),
                };
                off += consumed;
                let before = out.len();
                match dec.flush() {
                    Ok(Some(b)) => {
                        if let Err((fp, m)) = check_batch(&b, Some(&s)) {
                            return Outcome::Invalid(fp, m);
                        }
                        rows += b.num_rows();
                        out.push(b);
                    }
                    Ok(None) => {}
                    Err(e) => return Outcome::Err(format!("flush:{}", aerr_class(&e))),
                }
                if off >= bytes.len() || (consumed == 0 && out.len() == before) {
                    break;
                }
            }
            Outcome::Ok { note: format!("batches={} rows={rows} consumed={}", out.len(), off == bytes.len()), batches: out }
        }
        Rd::CsvReader => {
            let delim = csv_delim(e);
            let schema = e.schema.clone().expect("csv schema");
            let r = match arrow_csv::ReaderBuilder::new(schema.clone()).with_header(true).with_delimiter(delim).with_batch_size(3).build(Cursor::new(bytes)) {
                Ok(r) => r,
                Err(e) => return Outcome::Err(format!("open:{}", err_class(&e))),
            };
            collect(r, Some(schema), cap, err_class)
        }
        Rd::CsvInfer => {
            let delim = csv_delim(e);
            let fmt = arrow_csv::reader::Format::default().with_header(true).with_delimiter(delim);
            let (schema, _) = match fmt.infer_schema(Cursor::new(bytes), None) {
                Ok(x) => x,
                Err(e) => return Outcome::Err(format!("infer:{}", err_class(&e))),
            };
            let schema = std::sync::Arc::new(schema);
            let r = match arrow_csv::ReaderBuilder::new(schema.clone()).with_format(fmt).with_batch_size(3).build(Cursor::new(bytes)) {
                Ok(r) => r,
                Err(e) => return Outcome::Err(format!("open:{}", err_class(&e))),
            };
            collect(r, Some(schema), cap, err_class)
        }
        Rd::JsonReader => {
            let schema = e.schema.clone().expect("json schema");
            let r = match arrow_json::ReaderBuilder::new(schema.clone()).with_batch_size(3).build(Cursor::new(bytes)) {
                Ok(r) => r,
                Err(e) => return Outcome::Err(format!("open:{}", err_class(&e))),
            };
            collect(r, Some(schema), cap, err_class)
        }
        Rd::JsonInfer => {
            let (schema, _) = match arrow_json::reader::infer_json_schema(Cursor::new(bytes), None) {
                Ok(x) => x,
                Err(e) => return Outcome::Err(format!("infer:{}", err_class(&e))),
            };
            let schema = std::sync::Arc::new(schema);
            let r = match arrow_json::ReaderBuilder::new(schema.clone()).with_batch_size(3).build(Cursor::new(bytes)) {
                Ok(r) => r,
                Err(e) => return Outcome::Err(format!("open:{}", err_class(&e))),
            };
            collect(r, Some(schema), cap, err_class)
        }
        Rd::VariantTryNew => {
            let m = &bytes[..segs[0].min(bytes.len())];
            let v = &bytes[segs[0].min(bytes.len())..];
            match parquet_variant::Variant::try_new(m, v) {
                Ok(var) => {
                    let mut nodes = 0usize;
                    let kind = variant_kind(&var);
                    walk_variant(&var, 0, &mut nodes);
                    // the dictionary of a validated metadata is fully readable
                    let md = var.metadata();
                    let mut names = 0usize;
                    for s in md.iter() {
                        names += s.len();
                    }
                    Outcome::Ok { batches: vec![], note: format!("{kind} nodes={nodes} dict={} names={names}", md.len()) }
                }
                Err(e) => Outcome::Err(err_class(&e)),
            }
        }
    }
}

fn aerr_class(e: &arrow_avro::errors::AvroError) -> String {
    let s = format!("{e:?}");
    let v: String = s.chars().take_while(|c| c.is_ascii_alphanumeric()).collect();
    format!("Avro{v}")
}

fn csv_delim(e: &Entry) -> u8 {
    if e.name.contains("semicolon") { b';' } else { b',' }
}

pub fn variant_kind(v: &parquet_variant::Variant) -> &'static str {
    use parquet_variant::Variant::*;
    match v {
        Null => "Null",
        Int8(_) => "Int8",
        Int16(_) => "Int16",
        Int32(_) => "Int32",
        Int64(_) => "Int64",
        Date(_) => "Date",
        TimestampMicros(_) => "TimestampMicros",
        TimestampNtzMicros(_) => "TimestampNtzMicros",
        TimestampNanos(_) => "TimestampNanos",
        TimestampNtzNanos(_) => "TimestampNtzNanos",
        Decimal4(_) => "Decimal4",
        Decimal8(_) => "Decimal8",
        Decimal16(_) => "Decimal16",
        Float(_) => "Float",
        Double(_) => "Double",
        BooleanTrue => "True",
        BooleanFalse => "False",
        Binary(_) => "Binary",
        String(_) => "String",
        Time(_) => "Time",
        Uuid(_) => "Uuid",
        ShortString(_) => "ShortString",
        Object(_) => "Object",
        List(_) => "List",
    }
}

/// Full traversal through the *infallible* accessors, which the documentation of
/// `Variant::try_new` / `with_full_validation` promises not to panic on a validated value.
fn walk_variant(v: &parquet_variant::Variant, depth: usize, nodes: &mut usize) {
    use parquet_variant::Variant;
    *nodes += 1;
    match v {
        Variant::Object(o) => {
            let n = o.len();
            for i in 0..n {
                let name = o.field_name(i);
                let f = o.field(i);
                if let (Some(name), Some(f)) = (name, f) {
                    std::hint::black_box(name.len());
                    walk_variant(&f, depth + 1, nodes);
                    // lookup by name must work for every present field
                    std::hint::black_box(o.get(name).is_some());
                }
            }
            for (k, f) in o.iter() {
                std::hint::black_box((k.len(), variant_kind(&f)));
            }
        }
        Variant::List(l) => {
            for i in 0..l.len() {
                if let Some(x) = l.get(i) {
                    walk_variant(&x, depth + 1, nodes);
                }
            }
            for x in l.iter() {
                std::hint::black_box(variant_kind(&x));
            }
        }
        Variant::String(s) => {
            std::hint::black_box(s.len());
        }
        Variant::ShortString(s) => {
            std::hint::black_box(s.as_str().len());
        }
        Variant::Binary(b) => {
            std::hint::black_box(b.len());
        }
        other => {
            std::hint::black_box(format!("{other:?}").len());
        }
    }
}

/// logical equality of two decoded outputs (classification only)
pub fn same_batches(a: &[RecordBatch], b: &[RecordBatch]) -> bool {
    a.len() == b.len() && a.iter().zip(b).all(|(x, y)| x.schema().fields() == y.schema().fields() && x.num_rows() == y.num_rows() && x.columns().iter().zip(y.columns()).all(|(p, q): (&ArrayRef, &ArrayRef)| p.to_data() == q.to_data()))
}
