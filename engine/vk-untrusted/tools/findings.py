#!/usr/bin/env python3
"""findings.py <VERIF_DIR> [--merge-known <known_findings.json out>] [--md]

Reads <VERIF_DIR>/replays/C08/*.json (one per unlisted violation class, written by the engine) and
<VERIF_DIR>/evidence/C08.json and prints
  * a markdown table (fingerprint | occurrences | minimal input | observed) for STATUS.md   (--md)
  * known_findings.json "findings" entries for every class                                 (default)
With --merge-known the entries are merged into the given file's "findings" list (development aid for a
private VERIF_DIR; never point it at /verif/known_findings.json).
"""
import glob, json, os, sys

def what(r):
    fp, c, msg = r["fingerprint"], r["case"], r["message"]
    rd = c["reader"]
    first = f'first: {c["entry"]}, {c["mutation"]}'
    if ":alloc@" in fp:
        return f'{rd}: allocation unrelated to input size requested at {fp.split(":alloc@")[1]} ({first})'
    if fp.endswith(":hang"):
        return f'{rd}: does not terminate on a corrupted input ({first})'
    if fp.startswith("wf:"):
        return f'{rd}: returns Ok with an invalid array: {msg[:160]} ({first})'
    if ":died:" in fp:
        return f'{rd}: process dies: {msg[:120]} ({first})'
    return f'{rd}: panics on corrupted input: {msg[:160]} ({first})'

def main():
    vd = sys.argv[1]
    reps = [json.load(open(f)) for f in sorted(glob.glob(os.path.join(vd, "replays", "C08", "*.json")))]
    occ = {}
    try:
        ev = json.load(open(os.path.join(vd, "evidence", "C08.json")))
        occ = ev["coverage"].get("violation_occurrences", {})
    except Exception:
        pass
    reps.sort(key=lambda r: r["fingerprint"])
    if "--md" in sys.argv:
        print("| # | fingerprint | occurrences | minimal input (corpus entry, mutation, input bytes) | observed |")
        print("|---|---|---|---|---|")
        for i, r in enumerate(reps, 1):
            c = r["case"]
            n = occ.get(r["fingerprint"], r.get("occurrences", 1))
            msg = " ".join(r["message"][:220].replace("|", "/").split())
            print(f'| {i} | `` {r["fingerprint"]} `` | {n} | {c["entry"]}; {c["mutation"]}; {c["input_len"]} B | {msg} |')
        return
    entries = [{"property": "C08", "fingerprint": r["fingerprint"], "what": what(r), "status": "known"} for r in reps]
    if "--merge-known" in sys.argv:
        path = sys.argv[sys.argv.index("--merge-known") + 1]
        k = json.load(open(path))
        have = {(f.get("property"), f.get("fingerprint")) for f in k.get("findings", [])}
        for e in entries:
            if (e["property"], e["fingerprint"]) not in have:
                k.setdefault("findings", []).append(e)
        json.dump(k, open(path, "w"), indent=2)
        print(f"{len(entries)} classes, {len(k['findings'])} findings now listed in {path}")
    else:
        print(json.dumps(entries, indent=2))

if __name__ == "__main__":
    main()
