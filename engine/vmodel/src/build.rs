//! `realise(dt, col, layout)`: physical realisation of a logical column.
//! Only safe, validating constructors are used, so inputs are valid by construction.
use crate::{Val, alphabet, default_val, v_of};
use arrow_array::types::*;
use arrow_array::*;
use arrow_buffer::{ArrowNativeType, BooleanBuffer, Buffer, MutableBuffer, NullBuffer, OffsetBuffer, ScalarBuffer, i256};
use arrow_buffer::{IntervalDayTime, IntervalMonthDayNano};
use arrow_schema::{ArrowError, DataType, IntervalUnit, TimeUnit, UnionMode};
use std::sync::Arc;

/// A layout is a set of deviations from `compact`.
#[derive(Clone, Debug, Default, PartialEq, Eq, Hash)]
pub struct Layout {
    /// build p leading and q trailing extra rows, then slice them off
    pub slice: Option<(usize, usize)>,
    /// when the column has no nulls: still attach an all-valid validity buffer
    pub all_valid_buf: bool,
    /// payload under null slots is garbage (extreme values, non-empty ranges, out-of-range keys)
    pub garbage: bool,
    /// offsets start at k>0 with unused leading bytes/children
    pub first_offset: usize,
    /// unreferenced bytes/children after the last offset
    pub padded: bool,
    /// dictionary: 0 compact (first-occurrence order), 1 reversed order, 2 duplicated entries, 3 unused entries, 4 null dictionary value instead of null key
    pub dict: u8,
    /// views: number of data blocks (1..=3); 0 = default
    pub view_blocks: u8,
    /// run-end: 0 maximal runs, 1 every row its own run
    pub runs: u8,
    /// list-view: 0 in order, 1 reversed child order, 2 overlapping (shared) ranges, 3 gaps
    pub lv: u8,
    /// sparse union: unselected child slots hold garbage; dense union: children permuted
    pub union_alt: bool,
    /// buffers start `k` elements into their allocation (misaligned base, exact-size view)
    pub misalign: usize,
}

impl Layout {
    pub fn compact() -> Layout {
        Layout::default()
    }
    pub fn name(&self) -> String {
        let mut p = vec![];
        if let Some((a, b)) = self.slice {
            p.push(format!("sliced({a},{b})"));
        }
        if self.all_valid_buf {
            p.push("all-valid-buf".into());
        }
        if self.garbage {
            p.push("garbage-under-nulls".into());
        }
        if self.first_offset > 0 {
            p.push(format!("first-offset({})", self.first_offset));
        }
        if self.padded {
            p.push("padded-values".into());
        }
        if self.dict > 0 {
            p.push(["", "dict-perm", "dict-dup", "dict-unused", "dict-null-value"][self.dict as usize].into());
        }
        if self.view_blocks > 0 {
            p.push(format!("view-blocks({})", self.view_blocks));
        }
        if self.runs > 0 {
            p.push("runs-split".into());
        }
        if self.lv > 0 {
            p.push(["", "lv-reordered", "lv-overlap", "lv-gaps"][self.lv as usize].into());
        }
        if self.union_alt {
            p.push("union-alt".into());
        }
        if self.misalign > 0 {
            p.push(format!("misaligned-base({})", self.misalign));
        }
        if p.is_empty() { "compact".into() } else { p.join("+") }
    }
}

fn has_nested(dt: &DataType, pred: &dyn Fn(&DataType) -> bool) -> bool {
    if pred(dt) {
        return true;
    }
    match dt {
        DataType::List(f) | DataType::LargeList(f) | DataType::ListView(f) | DataType::LargeListView(f) | DataType::FixedSizeList(f, _) | DataType::Map(f, _) => has_nested(f.data_type(), pred),
        DataType::Struct(fs) => fs.iter().any(|f| has_nested(f.data_type(), pred)),
        DataType::Union(fs, _) => fs.iter().any(|(_, f)| has_nested(f.data_type(), pred)),
        DataType::Dictionary(_, v) => has_nested(v, pred),
        DataType::RunEndEncoded(_, v) => has_nested(v.data_type(), pred),
        _ => false,
    }
}

/// All single-deviation layouts that apply to `dt` (the layout menu of DESIGN.md 3.4).
pub fn layouts_1(dt: &DataType) -> Vec<Layout> {
    let mut v = vec![Layout::compact()];
    // (0, 2): offset 0 but shorter than the buffers - a different class from a non-zero offset
    for (p, q) in [(1, 0), (0, 2), (3, 1), (8, 0), (9, 1), (63, 0), (64, 1), (65, 0)] {
        v.push(Layout { slice: Some((p, q)), ..Default::default() });
    }
    v.push(Layout { all_valid_buf: true, ..Default::default() });
    if !matches!(dt, DataType::Null | DataType::Struct(_) | DataType::Union(_, _) | DataType::RunEndEncoded(_, _)) || matches!(dt, DataType::Struct(fs) if !fs.is_empty()) {
        v.push(Layout { garbage: true, ..Default::default() });
    }
    let offs = |d: &DataType| matches!(d, DataType::Utf8 | DataType::LargeUtf8 | DataType::Binary | DataType::LargeBinary | DataType::List(_) | DataType::LargeList(_) | DataType::Map(_, _));
    if has_nested(dt, &offs) {
        v.push(Layout { first_offset: 2, ..Default::default() });
        v.push(Layout { padded: true, ..Default::default() });
    }
    if has_nested(dt, &|d| matches!(d, DataType::Dictionary(_, _))) {
        for k in 1..=4 {
            v.push(Layout { dict: k, ..Default::default() });
        }
    }
    if has_nested(dt, &|d| matches!(d, DataType::Utf8View | DataType::BinaryView)) {
        for k in 1..=3 {
            v.push(Layout { view_blocks: k, ..Default::default() });
        }
    }
    if has_nested(dt, &|d| matches!(d, DataType::RunEndEncoded(_, _))) {
        v.push(Layout { runs: 1, ..Default::default() });
    }
    if has_nested(dt, &|d| matches!(d, DataType::ListView(_) | DataType::LargeListView(_))) {
        for k in 1..=3 {
            v.push(Layout { lv: k, ..Default::default() });
        }
    }
    if has_nested(dt, &|d| matches!(d, DataType::Union(_, _))) {
        v.push(Layout { union_alt: true, ..Default::default() });
    }
    if dt.is_primitive() || matches!(dt, DataType::Boolean) {
        v.push(Layout { misalign: 1, ..Default::default() });
        v.push(Layout { misalign: 3, ..Default::default() });
    }
    v
}

/// All layouts with at most 2 deviations (pairs of distinct single deviations merged).
pub fn layouts_2(dt: &DataType) -> Vec<Layout> {
    let one = layouts_1(dt);
    let mut out = one.clone();
    let d = Layout::default();
    for (i, a) in one.iter().enumerate() {
        for b in one.iter().skip(i + 1) {
            let m = Layout {
                slice: a.slice.or(b.slice),
                all_valid_buf: a.all_valid_buf || b.all_valid_buf,
                garbage: a.garbage || b.garbage,
                first_offset: a.first_offset.max(b.first_offset),
                padded: a.padded || b.padded,
                dict: a.dict.max(b.dict),
                view_blocks: a.view_blocks.max(b.view_blocks),
                runs: a.runs.max(b.runs),
                lv: a.lv.max(b.lv),
                union_alt: a.union_alt || b.union_alt,
                misalign: a.misalign.max(b.misalign),
            };
            // a genuine pair: differs from default in exactly two dimensions
            let dims = [
                m.slice != d.slice,
                m.all_valid_buf,
                m.garbage,
                m.first_offset > 0,
                m.padded,
                m.dict > 0,
                m.view_blocks > 0,
                m.runs > 0,
                m.lv > 0,
                m.union_alt,
                m.misalign > 0,
            ];
            if dims.iter().filter(|x| **x).count() == 2 && !out.contains(&m) {
                out.push(m);
            }
        }
    }
    out
}

type R<T> = Result<T, ArrowError>;

fn nulls_of(col: &[Val], lay: &Layout) -> Option<NullBuffer> {
    if col.iter().any(|v| v.is_null()) {
        Some(NullBuffer::from(col.iter().map(|v| !v.is_null()).collect::<Vec<bool>>()))
    } else if lay.all_valid_buf && !col.is_empty() {
        Some(NullBuffer::new(BooleanBuffer::new_set(col.len())))
    } else {
        None
    }
}

/// typed buffer, optionally starting `k` elements into its allocation
fn scalar_buf<T: arrow_buffer::ArrowNativeType>(v: Vec<T>, misalign: usize) -> ScalarBuffer<T> {
    if misalign == 0 {
        return ScalarBuffer::from(v);
    }
    let mut w: Vec<T> = Vec::with_capacity(v.len() + misalign);
    w.extend(std::iter::repeat_n(T::default(), misalign));
    let n = v.len();
    w.extend(v);
    ScalarBuffer::new(Buffer::from_vec(w), misalign, n)
}

macro_rules! prim {
    ($t:ty, $col:expr, $lay:expr, $dt:expr, $conv:expr, $garb:expr) => {{
        let vals: Vec<<$t as ArrowPrimitiveType>::Native> = $col.iter().map(|v| if v.is_null() { if $lay.garbage { $garb } else { Default::default() } } else { $conv(v) }).collect();
        let a = PrimitiveArray::<$t>::try_new(scalar_buf(vals, $lay.misalign), nulls_of($col, $lay))?.with_data_type($dt.clone());
        Ok(Arc::new(a) as ArrayRef)
    }};
}

fn vi(v: &Val) -> i128 {
    match v {
        Val::I(i) => *i,
        _ => panic!("expected integer value, got {v:?}"),
    }
}
fn vf(v: &Val) -> u64 {
    match v {
        Val::F(b) => *b,
        _ => panic!("expected float value, got {v:?}"),
    }
}

/// Build a column of `dt` from `col` (top-level call applies the slice deviation).
pub fn realise(dt: &DataType, col: &[Val], lay: &Layout) -> R<ArrayRef> {
    if let Some((p, q)) = lay.slice {
        // different values in the cut-off rows: rotate through the alphabet (and a null)
        let mut alpha = alphabet(dt, 4);
        if crate::supports_null(dt) && !matches!(dt, DataType::Null) {
            alpha.push(Val::Null);
        }
        if alpha.is_empty() {
            alpha.push(Val::Null);
        }
        let mut ext: Vec<Val> = (0..p).map(|i| alpha[(i + 1) % alpha.len()].clone()).collect();
        ext.extend_from_slice(col);
        ext.extend((0..q).map(|i| alpha[(i + 2) % alpha.len()].clone()));
        let inner = Layout { slice: None, ..lay.clone() };
        let a = build(dt, &ext, &inner)?;
        return Ok(a.slice(p, col.len()));
    }
    build(dt, col, lay)
}

pub fn build(dt: &DataType, col: &[Val], lay: &Layout) -> R<ArrayRef> {
    use DataType::*;
    let n = col.len();
    match dt {
        Null => Ok(Arc::new(NullArray::new(n))),
        Boolean => {
            let bits: Vec<bool> = col.iter().map(|v| matches!(v, Val::Bool(true)) || (v.is_null() && lay.garbage)).collect();
            let bb = if lay.misalign > 0 {
                let mut b = arrow_buffer::BooleanBufferBuilder::new(n + lay.misalign);
                b.append_n(lay.misalign, true);
                b.append_slice(&bits);
                b.finish().slice(lay.misalign, n)
            } else {
                BooleanBuffer::from(bits)
            };
            Ok(Arc::new(BooleanArray::new(bb, nulls_of(col, lay))))
        }
        Int8 => prim!(Int8Type, col, lay, dt, |v| vi(v) as i8, i8::MAX),
        Int16 => prim!(Int16Type, col, lay, dt, |v| vi(v) as i16, i16::MAX),
        Int32 => prim!(Int32Type, col, lay, dt, |v| vi(v) as i32, i32::MAX),
        Int64 => prim!(Int64Type, col, lay, dt, |v| vi(v) as i64, i64::MAX),
        UInt8 => prim!(UInt8Type, col, lay, dt, |v| vi(v) as u8, u8::MAX),
        UInt16 => prim!(UInt16Type, col, lay, dt, |v| vi(v) as u16, u16::MAX),
        UInt32 => prim!(UInt32Type, col, lay, dt, |v| vi(v) as u32, u32::MAX),
        UInt64 => prim!(UInt64Type, col, lay, dt, |v| vi(v) as u64, u64::MAX),
        Float16 => prim!(Float16Type, col, lay, dt, |v| half::f16::from_bits(vf(v) as u16), half::f16::from_bits(0x7E01)),
        Float32 => prim!(Float32Type, col, lay, dt, |v| f32::from_bits(vf(v) as u32), f32::from_bits(0x7FC0_0001)),
        Float64 => prim!(Float64Type, col, lay, dt, |v| f64::from_bits(vf(v)), f64::from_bits(0x7FF8_0000_0000_0001)),
        Decimal32(_, _) => prim!(Decimal32Type, col, lay, dt, |v| vi(v) as i32, i32::MAX),
        Decimal64(_, _) => prim!(Decimal64Type, col, lay, dt, |v| vi(v) as i64, i64::MAX),
        Decimal128(_, _) => prim!(Decimal128Type, col, lay, dt, |v| vi(v), i128::MAX),
        Decimal256(_, _) => prim!(Decimal256Type, col, lay, dt, |v: &Val| match v { Val::D256(x) => *x, _ => panic!("d256") }, i256::MAX),
        Date32 => prim!(Date32Type, col, lay, dt, |v| vi(v) as i32, i32::MAX),
        Date64 => prim!(Date64Type, col, lay, dt, |v| vi(v) as i64, i64::MAX),
        Time32(TimeUnit::Second) => prim!(Time32SecondType, col, lay, dt, |v| vi(v) as i32, i32::MAX),
        Time32(TimeUnit::Millisecond) => prim!(Time32MillisecondType, col, lay, dt, |v| vi(v) as i32, i32::MAX),
        Time64(TimeUnit::Microsecond) => prim!(Time64MicrosecondType, col, lay, dt, |v| vi(v) as i64, i64::MAX),
        Time64(TimeUnit::Nanosecond) => prim!(Time64NanosecondType, col, lay, dt, |v| vi(v) as i64, i64::MAX),
        Timestamp(TimeUnit::Second, _) => prim!(TimestampSecondType, col, lay, dt, |v| vi(v) as i64, i64::MAX),
        Timestamp(TimeUnit::Millisecond, _) => prim!(TimestampMillisecondType, col, lay, dt, |v| vi(v) as i64, i64::MAX),
        Timestamp(TimeUnit::Microsecond, _) => prim!(TimestampMicrosecondType, col, lay, dt, |v| vi(v) as i64, i64::MAX),
        Timestamp(TimeUnit::Nanosecond, _) => prim!(TimestampNanosecondType, col, lay, dt, |v| vi(v) as i64, i64::MAX),
        Duration(TimeUnit::Second) => prim!(DurationSecondType, col, lay, dt, |v| vi(v) as i64, i64::MAX),
        Duration(TimeUnit::Millisecond) => prim!(DurationMillisecondType, col, lay, dt, |v| vi(v) as i64, i64::MAX),
        Duration(TimeUnit::Microsecond) => prim!(DurationMicrosecondType, col, lay, dt, |v| vi(v) as i64, i64::MAX),
        Duration(TimeUnit::Nanosecond) => prim!(DurationNanosecondType, col, lay, dt, |v| vi(v) as i64, i64::MAX),
        Interval(IntervalUnit::YearMonth) => prim!(IntervalYearMonthType, col, lay, dt, |v| vi(v) as i32, i32::MAX),
        Interval(IntervalUnit::DayTime) => {
            prim!(IntervalDayTimeType, col, lay, dt, |v: &Val| match v { Val::Idt(a, b) => IntervalDayTime::new(*a, *b), _ => panic!("idt") }, IntervalDayTime::new(i32::MAX, i32::MAX))
        }
        Interval(IntervalUnit::MonthDayNano) => {
            prim!(IntervalMonthDayNanoType, col, lay, dt, |v: &Val| match v { Val::Imdn(a, b, c) => IntervalMonthDayNano::new(*a, *b, *c), _ => panic!("imdn") }, IntervalMonthDayNano::new(i32::MAX, i32::MAX, i64::MAX))
        }
        Utf8 => bytes_arr::<Utf8Type>(col, lay),
        LargeUtf8 => bytes_arr::<LargeUtf8Type>(col, lay),
        Binary => bytes_arr::<BinaryType>(col, lay),
        LargeBinary => bytes_arr::<LargeBinaryType>(col, lay),
        Utf8View => view_arr::<StringViewType>(col, lay),
        BinaryView => view_arr::<BinaryViewType>(col, lay),
        FixedSizeBinary(k) => {
            let k = *k as usize;
            let mut buf: Vec<u8> = vec![];
            for v in col {
                match v {
                    Val::Bytes(b) => {
                        assert_eq!(b.len(), k);
                        buf.extend_from_slice(b)
                    }
                    _ => buf.extend(std::iter::repeat_n(if lay.garbage { 0xAB } else { 0 }, k)),
                }
            }
            Ok(Arc::new(FixedSizeBinaryArray::try_new_with_len(k as i32, Buffer::from_vec(buf), nulls_of(col, lay), n)?))
        }
        List(fl) => list_arr::<i32>(fl, col, lay),
        LargeList(fl) => list_arr::<i64>(fl, col, lay),
        ListView(fl) => list_view_arr::<i32>(fl, col, lay),
        LargeListView(fl) => list_view_arr::<i64>(fl, col, lay),
        FixedSizeList(fl, k) => {
            let k = *k as usize;
            let filler = if fl.is_nullable() && !lay.garbage { Val::Null } else { default_val(fl.data_type()) };
            let mut child: Vec<Val> = vec![];
            for v in col {
                match v {
                    Val::List(items) => {
                        assert_eq!(items.len(), k);
                        child.extend(items.iter().cloned())
                    }
                    _ => child.extend(std::iter::repeat_n(filler.clone(), k)),
                }
            }
            let c = build(fl.data_type(), &child, &child_layout(lay))?;
            Ok(Arc::new(FixedSizeListArray::try_new_with_length(fl.clone(), k as i32, c, nulls_of(col, lay), n)?))
        }
        Struct(fs) => {
            let mut children = vec![];
            for (fi, fld) in fs.iter().enumerate() {
                let filler = if fld.is_nullable() && !lay.garbage { Val::Null } else { default_val(fld.data_type()) };
                let cv: Vec<Val> = col
                    .iter()
                    .map(|v| match v {
                        Val::Struct(items) => items[fi].clone(),
                        _ => filler.clone(),
                    })
                    .collect();
                children.push(build(fld.data_type(), &cv, &child_layout(lay))?);
            }
            Ok(Arc::new(StructArray::try_new_with_length(fs.clone(), children, nulls_of(col, lay), n)?))
        }
        Map(fl, ordered) => {
            let DataType::Struct(kv) = fl.data_type() else { panic!("map entries") };
            let lead = lay.first_offset;
            let mut keys: Vec<Val> = (0..lead).map(|_| default_val(kv[0].data_type())).collect();
            let mut vals: Vec<Val> = (0..lead).map(|_| default_val(kv[1].data_type())).collect();
            let mut offs: Vec<i32> = vec![lead as i32];
            for v in col {
                match v {
                    Val::Map(es) => {
                        for (k, x) in es {
                            keys.push(k.clone());
                            vals.push(x.clone());
                        }
                    }
                    _ => {
                        if lay.garbage {
                            keys.push(default_val(kv[0].data_type()));
                            vals.push(default_val(kv[1].data_type()));
                        }
                    }
                }
                offs.push(keys.len() as i32);
            }
            if lay.padded {
                keys.push(default_val(kv[0].data_type()));
                vals.push(default_val(kv[1].data_type()));
            }
            let cl = child_layout(lay);
            let ka = build(kv[0].data_type(), &keys, &cl)?;
            let va = build(kv[1].data_type(), &vals, &cl)?;
            let entries = StructArray::try_new(kv.clone(), vec![ka, va], None)?;
            Ok(Arc::new(MapArray::try_new(fl.clone(), OffsetBuffer::new(ScalarBuffer::from(offs)), entries, nulls_of(col, lay), *ordered)?))
        }
        Dictionary(k, v) => dict_arr(k, v, col, lay),
        RunEndEncoded(rf, vf_) => {
            // runs: maximal runs of equal logical values, or one run per row
            let mut ends: Vec<i64> = vec![];
            let mut vals: Vec<Val> = vec![];
            for (i, v) in col.iter().enumerate() {
                if lay.runs == 0 && vals.last() == Some(v) {
                    *ends.last_mut().unwrap() = (i + 1) as i64;
                } else {
                    vals.push(v.clone());
                    ends.push((i + 1) as i64);
                }
            }
            let va = build(vf_.data_type(), &vals, &child_layout(lay))?;
            match rf.data_type() {
                Int16 => Ok(Arc::new(RunArray::<Int16Type>::try_new(&Int16Array::from(ends.iter().map(|x| *x as i16).collect::<Vec<_>>()), &va)?)),
                Int32 => Ok(Arc::new(RunArray::<Int32Type>::try_new(&Int32Array::from(ends.iter().map(|x| *x as i32).collect::<Vec<_>>()), &va)?)),
                Int64 => Ok(Arc::new(RunArray::<Int64Type>::try_new(&Int64Array::from(ends), &va)?)),
                o => panic!("run end type {o}"),
            }
        }
        Union(fs, mode) => {
            let tids: Vec<i8> = col.iter().map(|v| match v { Val::Union(t, _) => *t, _ => panic!("union column holds {v:?}") }).collect();
            let mut children = vec![];
            let mut offsets: Vec<i32> = vec![0; n];
            for (tid, fld) in fs.iter() {
                match mode {
                    UnionMode::Sparse => {
                        let filler = if lay.union_alt || !fld.is_nullable() { default_val(fld.data_type()) } else { Val::Null };
                        let cv: Vec<Val> = col.iter().map(|v| match v { Val::Union(t, x) if *t == tid => (**x).clone(), _ => filler.clone() }).collect();
                        children.push(build(fld.data_type(), &cv, &child_layout(lay))?);
                    }
                    UnionMode::Dense => {
                        let mut cv: Vec<Val> = vec![];
                        let mut rows: Vec<usize> = vec![];
                        for (i, v) in col.iter().enumerate() {
                            if let Val::Union(t, x) = v {
                                if *t == tid {
                                    rows.push(i);
                                    cv.push((**x).clone());
                                }
                            }
                        }
                        if lay.union_alt {
                            // children stored in reverse order, offsets adjusted; plus one unused leading slot
                            cv.reverse();
                            cv.insert(0, default_val(fld.data_type()));
                            let m = rows.len();
                            for (j, r) in rows.iter().enumerate() {
                                offsets[*r] = (m - j) as i32;
                            }
                        } else {
                            for (j, r) in rows.iter().enumerate() {
                                offsets[*r] = j as i32;
                            }
                        }
                        children.push(build(fld.data_type(), &cv, &child_layout(lay))?);
                    }
                }
            }
            let offs = match mode {
                UnionMode::Dense => Some(ScalarBuffer::from(offsets)),
                UnionMode::Sparse => None,
            };
            Ok(Arc::new(UnionArray::try_new(fs.clone(), ScalarBuffer::from(tids), offs, children)?))
        }
        other => panic!("vmodel::build: type {other} not in the grid"),
    }
}

/// deviations that propagate to children (slice/misalign do not: they are applied at the top)
fn child_layout(lay: &Layout) -> Layout {
    Layout { slice: None, misalign: 0, all_valid_buf: false, ..lay.clone() }
}

fn bytes_of(v: &Val) -> &[u8] {
    match v {
        Val::Str(s) => s.as_bytes(),
        Val::Bytes(b) => b,
        _ => panic!("expected bytes/str, got {v:?}"),
    }
}

fn bytes_arr<T: ByteArrayType>(col: &[Val], lay: &Layout) -> R<ArrayRef>
where
    T::Offset: TryFrom<usize>,
{
    let conv = |x: usize| T::Offset::usize_as(x);
    let mut values: Vec<u8> = vec![b'#'; lay.first_offset];
    let mut offs = vec![conv(values.len())];
    for v in col {
        if v.is_null() {
            if lay.garbage {
                values.extend_from_slice(b"zz");
            }
        } else {
            values.extend_from_slice(bytes_of(v));
        }
        offs.push(conv(values.len()));
    }
    if lay.padded {
        values.extend_from_slice(b"pad");
    }
    let a = GenericByteArray::<T>::try_new(OffsetBuffer::new(ScalarBuffer::from(offs)), Buffer::from_vec(values), nulls_of(col, lay))?;
    Ok(Arc::new(a))
}

fn view_arr<T: ByteViewType>(col: &[Val], lay: &Layout) -> R<ArrayRef> {
    use arrow_array::builder::make_view;
    let nblocks = lay.view_blocks.max(1) as usize;
    let mut blocks: Vec<Vec<u8>> = vec![vec![]; nblocks];
    if lay.padded {
        blocks[0].extend_from_slice(b"unused leading bytes");
    }
    let mut views: Vec<u128> = vec![];
    let mut long_i = 0usize;
    for v in col {
        if v.is_null() {
            // garbage: an inline view with arbitrary content (always structurally valid)
            views.push(if lay.garbage { make_view(b"zz", 0, 0) } else { 0 });
            continue;
        }
        let b = bytes_of(v);
        if b.len() <= 12 {
            views.push(make_view(b, 0, 0));
        } else {
            // later strings go to earlier blocks when several blocks are used (out-of-order buffer indices)
            let blk = (nblocks - 1) - (long_i % nblocks);
            long_i += 1;
            let off = blocks[blk].len();
            blocks[blk].extend_from_slice(b);
            views.push(make_view(b, blk as u32, off as u32));
        }
    }
    let mut buffers: Vec<Buffer> = blocks.into_iter().map(Buffer::from_vec).collect();
    if lay.view_blocks >= 2 {
        buffers.push(Buffer::from_vec(b"unused trailing buffer".to_vec()));
    }
    if lay.view_blocks == 0 && buffers.len() == 1 && buffers[0].is_empty() {
        buffers.clear();
    }
    let a = GenericByteViewArray::<T>::try_new(ScalarBuffer::from(views), buffers, nulls_of(col, lay))?;
    Ok(Arc::new(a))
}

fn list_arr<O: OffsetSizeTrait>(fl: &arrow_schema::FieldRef, col: &[Val], lay: &Layout) -> R<ArrayRef> {
    let mut child: Vec<Val> = (0..lay.first_offset).map(|_| default_val(fl.data_type())).collect();
    let mut offs = vec![O::usize_as(child.len())];
    for v in col {
        match v {
            Val::List(items) => child.extend(items.iter().cloned()),
            _ => {
                if lay.garbage {
                    child.push(default_val(fl.data_type()));
                }
            }
        }
        offs.push(O::usize_as(child.len()));
    }
    if lay.padded {
        child.push(default_val(fl.data_type()));
    }
    let c = build(fl.data_type(), &child, &child_layout(lay))?;
    Ok(Arc::new(GenericListArray::<O>::try_new(fl.clone(), OffsetBuffer::new(ScalarBuffer::from(offs)), c, nulls_of(col, lay))?))
}

fn list_view_arr<O: OffsetSizeTrait>(fl: &arrow_schema::FieldRef, col: &[Val], lay: &Layout) -> R<ArrayRef> {
    let n = col.len();
    let mut child: Vec<Val> = vec![];
    let mut offs = vec![O::usize_as(0); n];
    let mut sizes = vec![O::usize_as(0); n];
    let order: Vec<usize> = if lay.lv == 1 { (0..n).rev().collect() } else { (0..n).collect() };
    let mut seen: Vec<(Vec<Val>, usize)> = vec![];
    for i in order {
        let items: Vec<Val> = match &col[i] {
            Val::List(items) => items.clone(),
            _ => {
                if lay.garbage {
                    vec![default_val(fl.data_type())]
                } else {
                    vec![]
                }
            }
        };
        if lay.lv == 3 {
            child.push(default_val(fl.data_type())); // gap
        }
        let start = if lay.lv == 2 {
            // overlap: reuse an identical range already stored
            if let Some((_, s)) = seen.iter().find(|(it, _)| *it == items) {
                *s
            } else {
                let s = child.len();
                child.extend(items.iter().cloned());
                seen.push((items.clone(), s));
                s
            }
        } else {
            let s = child.len();
            child.extend(items.iter().cloned());
            s
        };
        offs[i] = O::usize_as(start);
        sizes[i] = O::usize_as(items.len());
    }
    let c = build(fl.data_type(), &child, &child_layout(lay))?;
    Ok(Arc::new(GenericListViewArray::<O>::try_new(fl.clone(), ScalarBuffer::from(offs), ScalarBuffer::from(sizes), c, nulls_of(col, lay))?))
}

fn dict_arr(k: &DataType, v: &DataType, col: &[Val], lay: &Layout) -> R<ArrayRef> {
    // dictionary values: distinct non-null logical values in first-occurrence order
    let mut dict: Vec<Val> = vec![];
    for x in col {
        if !x.is_null() && !dict.contains(x) {
            dict.push(x.clone());
        }
    }
    let mut null_slot: Option<usize> = None;
    match lay.dict {
        1 => dict.reverse(),
        2 => {
            let d2 = dict.clone();
            dict.extend(d2); // duplicates; rows alternate between the two copies
        }
        3 => {
            let extra = alphabet(v, 8).into_iter().find(|a| !dict.contains(a)).unwrap_or(default_val(v));
            dict.insert(0, extra);
        }
        4 => {
            null_slot = Some(dict.len());
            dict.push(Val::Null);
        }
        _ => {}
    }
    let mut keys: Vec<Val> = vec![];
    for (i, x) in col.iter().enumerate() {
        if x.is_null() {
            match null_slot {
                Some(s) if i % 2 == 0 => keys.push(Val::I(s as i128)),
                _ => keys.push(Val::Null),
            }
            continue;
        }
        let first = dict.iter().position(|d| d == x).unwrap();
        let idx = if lay.dict == 2 && i % 2 == 1 { dict.iter().rposition(|d| d == x).unwrap() } else { first };
        keys.push(Val::I(idx as i128));
    }
    let cl = child_layout(lay);
    let values = build(v, &dict, &cl)?;
    // keys: garbage under nulls = key far out of range
    let key_lay = Layout { garbage: lay.garbage, ..Layout::default() };
    let ka = build(k, &keys, &key_lay)?;
    macro_rules! mk {
        ($t:ty) => {
            Ok(Arc::new(DictionaryArray::<$t>::try_new(ka.as_any().downcast_ref::<PrimitiveArray<$t>>().unwrap().clone(), values)?) as ArrayRef)
        };
    }
    match k {
        DataType::Int8 => mk!(Int8Type),
        DataType::Int16 => mk!(Int16Type),
        DataType::Int32 => mk!(Int32Type),
        DataType::Int64 => mk!(Int64Type),
        DataType::UInt8 => mk!(UInt8Type),
        DataType::UInt16 => mk!(UInt16Type),
        DataType::UInt32 => mk!(UInt32Type),
        DataType::UInt64 => mk!(UInt64Type),
        o => panic!("dictionary key type {o}"),
    }
}

/// `true` if `col` can be realised in `lay` with a result that denotes exactly `col`
/// (some deviations change what `==` may legitimately observe; see `physical_null_refinement`).
pub fn applicable(dt: &DataType, lay: &Layout) -> bool {
    // dict-null-value makes null rows "valid key -> null value": logically null, physically valid.
    let _ = (dt, lay);
    true
}

pub fn value_type(dt: &DataType) -> &DataType {
    v_of(dt).unwrap_or(dt)
}

#[allow(dead_code)]
fn _unused(_: MutableBuffer) {}
