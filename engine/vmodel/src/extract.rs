//! `extract(&dyn Array) -> Vec<Val>`: read a column back through typed accessors only
//! (`value(i)`, `is_null`, offsets/sizes, keys -> values, run ends -> values, type ids -> child).
//! Does not use `==`, `to_data` comparison or any kernel.
use crate::Val;
use arrow_array::cast::AsArray;
use arrow_array::types::*;
use arrow_array::*;
use arrow_schema::{DataType, IntervalUnit, TimeUnit};

pub fn extract(a: &dyn Array) -> Vec<Val> {
    (0..a.len()).map(|i| get(a, i)).collect()
}

macro_rules! p {
    ($a:expr, $i:expr, $t:ty, $f:expr) => {{
        let arr = $a.as_primitive::<$t>();
        let v = arr.value($i);
        $f(v)
    }};
}

/// logical value at row `i` (null per the array's own validity; dictionary / run-end resolve through
/// their values; union through the selected child)
pub fn get(a: &dyn Array, i: usize) -> Val {
    use DataType::*;
    assert!(i < a.len(), "extract: index {i} out of bounds {}", a.len());
    match a.data_type() {
        Null => return Val::Null,
        Dictionary(_, _) => {
            let d = a.as_any_dictionary();
            if d.keys().is_null(i) {
                return Val::Null;
            }
            let k = key_at(d.keys(), i);
            return get(d.values().as_ref(), k);
        }
        RunEndEncoded(r, _) => {
            macro_rules! ree {
                ($t:ty) => {{
                    let ra = a.as_any().downcast_ref::<RunArray<$t>>().unwrap();
                    let pi = ra.get_physical_index(i);
                    get(ra.values().as_ref(), pi)
                }};
            }
            return match r.data_type() {
                Int16 => ree!(Int16Type),
                Int32 => ree!(Int32Type),
                Int64 => ree!(Int64Type),
                o => panic!("run end type {o}"),
            };
        }
        Union(_, _) => {
            let u = a.as_any().downcast_ref::<UnionArray>().unwrap();
            let t = u.type_id(i);
            let off = u.value_offset(i);
            let child = u.child(t);
            return Val::Union(t, Box::new(get(child.as_ref(), off)));
        }
        _ => {}
    }
    if a.is_null(i) {
        return Val::Null;
    }
    match a.data_type() {
        Boolean => Val::Bool(a.as_boolean().value(i)),
        Int8 => p!(a, i, Int8Type, |v| Val::I(v as i128)),
        Int16 => p!(a, i, Int16Type, |v| Val::I(v as i128)),
        Int32 => p!(a, i, Int32Type, |v| Val::I(v as i128)),
        Int64 => p!(a, i, Int64Type, |v| Val::I(v as i128)),
        UInt8 => p!(a, i, UInt8Type, |v| Val::I(v as i128)),
        UInt16 => p!(a, i, UInt16Type, |v| Val::I(v as i128)),
        UInt32 => p!(a, i, UInt32Type, |v| Val::I(v as i128)),
        UInt64 => p!(a, i, UInt64Type, |v| Val::I(v as i128)),
        Float16 => p!(a, i, Float16Type, |v: half::f16| Val::F(v.to_bits() as u64)),
        Float32 => p!(a, i, Float32Type, |v: f32| Val::F(v.to_bits() as u64)),
        Float64 => p!(a, i, Float64Type, |v: f64| Val::F(v.to_bits())),
        Decimal32(_, _) => p!(a, i, Decimal32Type, |v| Val::I(v as i128)),
        Decimal64(_, _) => p!(a, i, Decimal64Type, |v| Val::I(v as i128)),
        Decimal128(_, _) => p!(a, i, Decimal128Type, |v| Val::I(v)),
        Decimal256(_, _) => p!(a, i, Decimal256Type, Val::D256),
        Date32 => p!(a, i, Date32Type, |v| Val::I(v as i128)),
        Date64 => p!(a, i, Date64Type, |v| Val::I(v as i128)),
        Time32(TimeUnit::Second) => p!(a, i, Time32SecondType, |v| Val::I(v as i128)),
        Time32(TimeUnit::Millisecond) => p!(a, i, Time32MillisecondType, |v| Val::I(v as i128)),
        Time64(TimeUnit::Microsecond) => p!(a, i, Time64MicrosecondType, |v| Val::I(v as i128)),
        Time64(TimeUnit::Nanosecond) => p!(a, i, Time64NanosecondType, |v| Val::I(v as i128)),
        Timestamp(TimeUnit::Second, _) => p!(a, i, TimestampSecondType, |v| Val::I(v as i128)),
        Timestamp(TimeUnit::Millisecond, _) => p!(a, i, TimestampMillisecondType, |v| Val::I(v as i128)),
        Timestamp(TimeUnit::Microsecond, _) => p!(a, i, TimestampMicrosecondType, |v| Val::I(v as i128)),
        Timestamp(TimeUnit::Nanosecond, _) => p!(a, i, TimestampNanosecondType, |v| Val::I(v as i128)),
        Duration(TimeUnit::Second) => p!(a, i, DurationSecondType, |v| Val::I(v as i128)),
        Duration(TimeUnit::Millisecond) => p!(a, i, DurationMillisecondType, |v| Val::I(v as i128)),
        Duration(TimeUnit::Microsecond) => p!(a, i, DurationMicrosecondType, |v| Val::I(v as i128)),
        Duration(TimeUnit::Nanosecond) => p!(a, i, DurationNanosecondType, |v| Val::I(v as i128)),
        Interval(IntervalUnit::YearMonth) => p!(a, i, IntervalYearMonthType, |v| Val::I(v as i128)),
        Interval(IntervalUnit::DayTime) => p!(a, i, IntervalDayTimeType, |v: arrow_buffer::IntervalDayTime| Val::Idt(v.days, v.milliseconds)),
        Interval(IntervalUnit::MonthDayNano) => p!(a, i, IntervalMonthDayNanoType, |v: arrow_buffer::IntervalMonthDayNano| Val::Imdn(v.months, v.days, v.nanoseconds)),
        Utf8 => Val::Str(a.as_string::<i32>().value(i).to_string()),
        LargeUtf8 => Val::Str(a.as_string::<i64>().value(i).to_string()),
        Utf8View => Val::Str(a.as_string_view().value(i).to_string()),
        Binary => Val::Bytes(a.as_binary::<i32>().value(i).to_vec()),
        LargeBinary => Val::Bytes(a.as_binary::<i64>().value(i).to_vec()),
        BinaryView => Val::Bytes(a.as_binary_view().value(i).to_vec()),
        FixedSizeBinary(_) => Val::Bytes(a.as_fixed_size_binary().value(i).to_vec()),
        List(_) => Val::List(extract(a.as_list::<i32>().value(i).as_ref())),
        LargeList(_) => Val::List(extract(a.as_list::<i64>().value(i).as_ref())),
        ListView(_) => Val::List(extract(a.as_list_view::<i32>().value(i).as_ref())),
        LargeListView(_) => Val::List(extract(a.as_list_view::<i64>().value(i).as_ref())),
        FixedSizeList(_, _) => Val::List(extract(a.as_fixed_size_list().value(i).as_ref())),
        Struct(_) => {
            let s = a.as_struct();
            Val::Struct(s.columns().iter().map(|c| get(c.as_ref(), i)).collect())
        }
        Map(_, _) => {
            let m = a.as_map();
            let e = m.value(i);
            let ks = extract(e.column(0).as_ref());
            let vs = extract(e.column(1).as_ref());
            Val::Map(ks.into_iter().zip(vs).collect())
        }
        o => panic!("vmodel::extract: unsupported type {o}"),
    }
}

fn key_at(keys: &dyn Array, i: usize) -> usize {
    use DataType::*;
    match keys.data_type() {
        Int8 => keys.as_primitive::<Int8Type>().value(i) as usize,
        Int16 => keys.as_primitive::<Int16Type>().value(i) as usize,
        Int32 => keys.as_primitive::<Int32Type>().value(i) as usize,
        Int64 => keys.as_primitive::<Int64Type>().value(i) as usize,
        UInt8 => keys.as_primitive::<UInt8Type>().value(i) as usize,
        UInt16 => keys.as_primitive::<UInt16Type>().value(i) as usize,
        UInt32 => keys.as_primitive::<UInt32Type>().value(i) as usize,
        UInt64 => keys.as_primitive::<UInt64Type>().value(i) as usize,
        o => panic!("key type {o}"),
    }
}

/// physical validity per row (what `Array::is_null` / `nulls()` report), for the `==` refinement
pub fn physical_nulls(a: &dyn Array) -> Vec<bool> {
    (0..a.len()).map(|i| a.is_null(i)).collect()
}
