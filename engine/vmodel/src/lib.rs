//! vmodel: logical value model of Arrow columns, independent of memory layout.
//!
//! * `Val` – value tree; a logical column is `(DataType, Vec<Val>)`
//! * `grid` – type grids; `alphabet` – per-type boundary alphabets; `columns` – all small columns
//! * `build::realise` – physical realisation of a column in a chosen `Layout` (safe constructors only)
//! * `extract::extract` – read a column back through typed accessors
//! * `validate::spec_validate` – validator written from the Arrow columnar format document
pub mod build;
pub mod extract;
pub mod validate;

use arrow_buffer::i256;
use arrow_schema::{DataType, Field, Fields, IntervalUnit, TimeUnit, UnionFields, UnionMode};
use std::sync::Arc;

#[derive(Clone, Debug, PartialEq, Eq, Hash, PartialOrd, Ord)]
pub enum Val {
    Null,
    Bool(bool),
    /// every integer-backed type: ints, dates, times, timestamps, durations, interval year-month, decimal32/64/128
    I(i128),
    D256(i256),
    /// float bit pattern (f16: low 16 bits, f32: low 32 bits, f64: all)
    F(u64),
    Idt(i32, i32),
    Imdn(i32, i32, i64),
    Bytes(Vec<u8>),
    Str(String),
    List(Vec<Val>),
    Struct(Vec<Val>),
    Map(Vec<(Val, Val)>),
    Union(i8, Box<Val>),
}

impl Val {
    pub fn is_null(&self) -> bool {
        matches!(self, Val::Null)
    }
    pub fn to_json(&self) -> serde_json::Value {
        use serde_json::json;
        match self {
            Val::Null => serde_json::Value::Null,
            Val::Bool(b) => json!(b),
            Val::I(i) => json!(i.to_string()),
            Val::D256(i) => json!(format!("d256:{i}")),
            Val::F(b) => json!(format!("f:0x{b:x}")),
            Val::Idt(a, b) => json!(format!("idt:{a}:{b}")),
            Val::Imdn(a, b, c) => json!(format!("imdn:{a}:{b}:{c}")),
            Val::Bytes(b) => json!(format!("x:{}", b.iter().map(|x| format!("{x:02x}")).collect::<String>())),
            Val::Str(s) => json!(s),
            Val::List(l) => json!(l.iter().map(|v| v.to_json()).collect::<Vec<_>>()),
            Val::Struct(l) => json!({"struct": l.iter().map(|v| v.to_json()).collect::<Vec<_>>()}),
            Val::Map(l) => json!({"map": l.iter().map(|(k, v)| json!([k.to_json(), v.to_json()])).collect::<Vec<_>>()}),
            Val::Union(t, v) => json!({"union": [t, v.to_json()]}),
        }
    }
}

pub fn col_json(dt: &DataType, col: &[Val]) -> serde_json::Value {
    serde_json::json!({"type": dt.to_string(), "values": col.iter().map(|v| v.to_json()).collect::<Vec<_>>()})
}

// ------------------------------------------------------------------------------------------------
// type grid

fn f(name: &str, dt: DataType, nullable: bool) -> Arc<Field> {
    Arc::new(Field::new(name, dt, nullable))
}
pub fn list_of(dt: DataType) -> DataType {
    DataType::List(f("item", dt, true))
}
pub fn struct_of(fs: Vec<(&str, DataType, bool)>) -> DataType {
    DataType::Struct(Fields::from(fs.into_iter().map(|(n, d, nl)| Field::new(n, d, nl)).collect::<Vec<_>>()))
}
pub fn dict_of(k: DataType, v: DataType) -> DataType {
    DataType::Dictionary(Box::new(k), Box::new(v))
}
pub fn ree_of(r: DataType, v: DataType) -> DataType {
    DataType::RunEndEncoded(f("run_ends", r, false), f("values", v, true))
}
pub fn map_of(k: DataType, v: DataType) -> DataType {
    DataType::Map(f("entries", struct_of(vec![("keys", k, false), ("values", v, true)]), false), false)
}
pub fn union_of(mode: UnionMode) -> DataType {
    DataType::Union(UnionFields::try_new(vec![0, 5], vec![Field::new("i", DataType::Int32, true), Field::new("s", DataType::Utf8, true)]).unwrap(), mode)
}

/// primitive-like leaf types
pub fn grid_flat() -> Vec<DataType> {
    use DataType::*;
    vec![
        Null,
        Boolean,
        Int8,
        Int16,
        Int32,
        Int64,
        UInt8,
        UInt16,
        UInt32,
        UInt64,
        Float16,
        Float32,
        Float64,
        Decimal32(5, 2),
        Decimal64(10, 0),
        Decimal128(10, -1),
        Decimal256(40, 3),
        Date32,
        Date64,
        Time32(TimeUnit::Second),
        Time32(TimeUnit::Millisecond),
        Time64(TimeUnit::Microsecond),
        Time64(TimeUnit::Nanosecond),
        Timestamp(TimeUnit::Second, None),
        Timestamp(TimeUnit::Millisecond, None),
        Timestamp(TimeUnit::Microsecond, Some("UTC".into())),
        Timestamp(TimeUnit::Nanosecond, Some("+05:30".into())),
        Duration(TimeUnit::Millisecond),
        Interval(IntervalUnit::YearMonth),
        Interval(IntervalUnit::DayTime),
        Interval(IntervalUnit::MonthDayNano),
        Utf8,
        LargeUtf8,
        Utf8View,
        Binary,
        LargeBinary,
        BinaryView,
        FixedSizeBinary(0),
        FixedSizeBinary(3),
    ]
}

pub fn grid_nested() -> Vec<DataType> {
    use DataType::*;
    vec![
        list_of(Int32),
        LargeList(f("item", Utf8, true)),
        ListView(f("item", Int32, true)),
        LargeListView(f("item", Int32, true)),
        FixedSizeList(f("item", Int32, true), 2),
        FixedSizeList(f("item", Int32, true), 0),
        struct_of(vec![("a", Int32, true), ("b", Utf8, true)]),
        Struct(Fields::empty()),
        map_of(Utf8, Int32),
        dict_of(Int8, Utf8),
        dict_of(UInt16, Int32),
        dict_of(Int32, Utf8View),
        ree_of(Int16, Int32),
        ree_of(Int32, Utf8),
        ree_of(Int64, Boolean),
        union_of(UnionMode::Dense),
        union_of(UnionMode::Sparse),
        list_of(list_of(Int32)),
        list_of(struct_of(vec![("a", Int32, true)])),
        struct_of(vec![("l", list_of(Utf8), true)]),
        dict_of(Int8, list_of(Int32)),
        List(f("item", Int32, false)),
        struct_of(vec![("a", Int32, false)]),
    ]
}

pub fn grid_core() -> Vec<DataType> {
    let mut v = grid_flat();
    v.extend(grid_nested());
    v
}

// ------------------------------------------------------------------------------------------------
// alphabets

fn int_range(dt: &DataType) -> Option<(i128, i128)> {
    use DataType::*;
    Some(match dt {
        Int8 => (i8::MIN as i128, i8::MAX as i128),
        Int16 => (i16::MIN as i128, i16::MAX as i128),
        Int32 | Date32 | Time32(_) | Interval(IntervalUnit::YearMonth) => (i32::MIN as i128, i32::MAX as i128),
        Int64 | Date64 | Time64(_) | Timestamp(_, _) | Duration(_) => (i64::MIN as i128, i64::MAX as i128),
        UInt8 => (0, u8::MAX as i128),
        UInt16 => (0, u16::MAX as i128),
        UInt32 => (0, u32::MAX as i128),
        UInt64 => (0, u64::MAX as i128),
        Decimal32(p, _) => (-(10i128.pow(*p as u32) - 1), 10i128.pow(*p as u32) - 1),
        Decimal64(p, _) => (-(10i128.pow(*p as u32) - 1), 10i128.pow(*p as u32) - 1),
        Decimal128(p, _) => (-(10i128.pow(*p as u32) - 1), 10i128.pow(*p as u32) - 1),
        _ => return None,
    })
}

/// Non-null letters for `dt`, simplest first. `n` is a soft cap (>= 2).
pub fn alphabet(dt: &DataType, n: usize) -> Vec<Val> {
    use DataType::*;
    let mut v: Vec<Val> = match dt {
        Null => vec![],
        Boolean => vec![Val::Bool(false), Val::Bool(true)],
        Time32(_) | Time64(_) => vec![Val::I(0), Val::I(1), Val::I(3599), Val::I(86399)],
        Float16 => vec![0x0000u64, 0x3C00, 0x8000, 0x7E00, 0xFC00, 0xFE01, 0x0001].into_iter().map(Val::F).collect(),
        Float32 => vec![0u64, 0x3F80_0000, 0x8000_0000, 0x7FC0_0000, 0xFF80_0000, 0xFFC0_0001, 0x0000_0001].into_iter().map(Val::F).collect(),
        Float64 => vec![0u64, 0x3FF0_0000_0000_0000, 0x8000_0000_0000_0000, 0x7FF8_0000_0000_0000, 0xFFF0_0000_0000_0000, 0xFFF8_0000_0000_0001, 1].into_iter().map(Val::F).collect(),
        Decimal256(_, _) => vec![Val::D256(i256::ZERO), Val::D256(i256::from_i128(1)), Val::D256(i256::from_i128(-1)), Val::D256(i256::from_i128(10i128.pow(38) - 1).wrapping_mul(i256::from_i128(10)))],
        Interval(IntervalUnit::DayTime) => vec![Val::Idt(0, 0), Val::Idt(1, -1), Val::Idt(-1, 1), Val::Idt(i32::MAX, i32::MIN)],
        Interval(IntervalUnit::MonthDayNano) => vec![Val::Imdn(0, 0, 0), Val::Imdn(1, -1, 1), Val::Imdn(-1, 0, -1), Val::Imdn(i32::MIN, i32::MAX, i64::MIN)],
        // view types: an out-of-line value (> 12 bytes) and the longest inline value (exactly 12 bytes) come
        // first, otherwise the small-column enumerations never build a view array with a data buffer
        Utf8View => vec!["thirteen byte", "twelve bytes", "a", "é", "", "b", "aa", "a string that is longer than thirty-two bytes!"].into_iter().map(|s| Val::Str(s.into())).collect(),
        BinaryView => vec![b"thirteen byte".to_vec(), b"twelve bytes".to_vec(), vec![0x61], vec![0xFF], vec![], vec![0x00], vec![1, 2], vec![0xFE; 33]].into_iter().map(Val::Bytes).collect(),
        Utf8 | LargeUtf8 => vec!["", "a", "b", "é", "aa", "twelve bytes", "thirteen byte", "a string that is longer than thirty-two bytes!"].into_iter().map(|s| Val::Str(s.into())).collect(),
        Binary | LargeBinary => {
            vec![vec![], vec![0x61], vec![0x00], vec![0xFF], vec![1, 2], b"twelve bytes".to_vec(), b"thirteen byte".to_vec(), vec![0xFE; 33]].into_iter().map(Val::Bytes).collect()
        }
        FixedSizeBinary(0) => vec![Val::Bytes(vec![])],
        FixedSizeBinary(k) => vec![Val::Bytes(vec![0; *k as usize]), Val::Bytes(vec![0xFF; *k as usize]), Val::Bytes((1..=*k as u8).collect())],
        List(fl) | LargeList(fl) | ListView(fl) | LargeListView(fl) => {
            let inner = alphabet(fl.data_type(), 2);
            let x = inner.first().cloned().unwrap_or(Val::Null);
            let y = inner.get(1).cloned().unwrap_or(x.clone());
            let mut l = vec![Val::List(vec![]), Val::List(vec![x.clone()]), Val::List(vec![x.clone(), y.clone()])];
            if fl.is_nullable() {
                l.push(Val::List(vec![y.clone(), Val::Null]));
            }
            l
        }
        FixedSizeList(fl, k) => {
            let inner = alphabet(fl.data_type(), 2);
            let x = inner.first().cloned().unwrap_or(Val::Null);
            let y = inner.get(1).cloned().unwrap_or(x.clone());
            let k = *k as usize;
            let mut l = vec![Val::List(vec![x.clone(); k])];
            if k > 0 {
                l.push(Val::List((0..k).map(|i| if i % 2 == 0 { y.clone() } else { x.clone() }).collect()));
                if fl.is_nullable() {
                    l.push(Val::List((0..k).map(|i| if i == 0 { Val::Null } else { y.clone() }).collect()));
                }
            }
            l
        }
        Struct(fs) => {
            if fs.is_empty() {
                vec![Val::Struct(vec![])]
            } else {
                let alphas: Vec<Vec<Val>> = fs.iter().map(|f| alphabet(f.data_type(), 2)).collect();
                let pick = |i: usize| Val::Struct(alphas.iter().map(|a| a.get(i.min(a.len().saturating_sub(1))).cloned().unwrap_or(Val::Null)).collect());
                let mut l = vec![pick(0), pick(1)];
                if fs.iter().all(|f| f.is_nullable()) {
                    l.push(Val::Struct(fs.iter().map(|_| Val::Null).collect()));
                }
                if fs.len() > 1 && fs[1].is_nullable() {
                    let Val::Struct(mut p) = pick(1) else { unreachable!() };
                    p[1] = Val::Null;
                    l.push(Val::Struct(p));
                }
                l
            }
        }
        Map(fl, _) => {
            let DataType::Struct(kv) = fl.data_type() else { unreachable!() };
            let ks = alphabet(kv[0].data_type(), 3);
            let vs = alphabet(kv[1].data_type(), 2);
            let k = |i: usize| ks[i.min(ks.len() - 1)].clone();
            let vv = |i: usize| vs[i.min(vs.len() - 1)].clone();
            vec![Val::Map(vec![]), Val::Map(vec![(k(1), vv(0))]), Val::Map(vec![(k(2), vv(1)), (k(1), Val::Null)])]
        }
        Dictionary(_, v) => alphabet(v, n),
        RunEndEncoded(_, vf) => alphabet(vf.data_type(), n),
        Union(fs, _) => {
            let mut l = vec![];
            for (tid, fld) in fs.iter() {
                let a = alphabet(fld.data_type(), 2);
                for x in a.into_iter().take(2) {
                    l.push(Val::Union(tid, Box::new(x)));
                }
                l.push(Val::Union(tid, Box::new(Val::Null)));
            }
            // interleave branches so that small prefixes mix type ids
            let mut out = vec![];
            let half = l.len() / 2;
            for i in 0..half {
                out.push(l[i].clone());
                out.push(l[half + i].clone());
            }
            out
        }
        _ => {
            if let Some((lo, hi)) = int_range(dt) {
                let mut l = vec![Val::I(0), Val::I(1), Val::I(hi), Val::I(lo), Val::I(-1), Val::I(2)];
                if lo == 0 {
                    l = vec![Val::I(0), Val::I(1), Val::I(hi), Val::I(2), Val::I(hi - 1)];
                }
                l
            } else {
                panic!("alphabet: unsupported type {dt}")
            }
        }
    };
    v.truncate(n.max(1));
    v
}

/// value type of dictionary / run-end types
pub fn v_of(dt: &DataType) -> Option<&DataType> {
    match dt {
        DataType::Dictionary(_, v) => Some(v.as_ref()),
        DataType::RunEndEncoded(_, v) => Some(v.data_type()),
        _ => None,
    }
}

/// a valid non-null placeholder value for non-nullable positions
pub fn default_val(dt: &DataType) -> Val {
    match dt {
        DataType::Null => Val::Null,
        _ => alphabet(dt, 1).into_iter().next().unwrap_or(Val::Null),
    }
}

/// Can the type represent a top-level null row in a column of this type?
pub fn supports_null(dt: &DataType) -> bool {
    // sparse/dense unions have no validity of their own: nulls live in the children (Val::Union(t, Null))
    !matches!(dt, DataType::Union(_, _))
}

/// All columns of length 0..=max_len over `alphabet(dt, letters)` plus Null (when nullable).
pub fn columns(dt: &DataType, letters: usize, max_len: usize, nullable: bool) -> Vec<Vec<Val>> {
    let mut alpha = alphabet(dt, letters);
    if matches!(dt, DataType::Null) {
        return (0..=max_len).map(|n| vec![Val::Null; n]).collect();
    }
    if nullable && supports_null(dt) {
        alpha.insert(1.min(alpha.len()), Val::Null);
    }
    let mut out: Vec<Vec<Val>> = vec![vec![]];
    let mut level: Vec<Vec<Val>> = vec![vec![]];
    for _ in 0..max_len {
        let mut next = Vec::with_capacity(level.len() * alpha.len());
        for p in &level {
            for a in &alpha {
                let mut q = p.clone();
                q.push(a.clone());
                next.push(q);
            }
        }
        out.extend(next.iter().cloned());
        level = next;
    }
    out
}

/// model equality used for `==` on arrays: structural, floats by bits
pub fn cols_equal(a: &[Val], b: &[Val]) -> bool {
    a == b
}
