//! `spec_validate`: an independent validator written from the Arrow columnar format document
//! (plus the invariants arrow-rs needs so that *safe* accessors stay in bounds: e.g. `value(i)` is
//! safe for null slots too, so every slot's offsets / views must be in bounds and UTF-8).
//! It never consults `ArrayData::validate*`. Returns `Err(class: detail)`.
use arrow_array::RecordBatch;
use arrow_buffer::ArrowNativeType;
use arrow_data::ArrayData;
use arrow_schema::{DataType, IntervalUnit, UnionMode};

type V = Result<(), String>;

fn width(dt: &DataType) -> Option<usize> {
    use DataType::*;
    Some(match dt {
        Int8 | UInt8 => 1,
        Int16 | UInt16 | Float16 => 2,
        Int32 | UInt32 | Float32 | Date32 | Time32(_) | Decimal32(_, _) | Interval(IntervalUnit::YearMonth) => 4,
        Int64 | UInt64 | Float64 | Date64 | Time64(_) | Timestamp(_, _) | Duration(_) | Decimal64(_, _) | Interval(IntervalUnit::DayTime) => 8,
        Decimal128(_, _) | Interval(IntervalUnit::MonthDayNano) => 16,
        Decimal256(_, _) => 32,
        _ => return None,
    })
}
/// alignment arrow-rs requires for the value buffer (stricter than the spec by design)
fn align(dt: &DataType) -> usize {
    use DataType::*;
    match dt {
        Interval(IntervalUnit::DayTime) => 4,
        Interval(IntervalUnit::MonthDayNano) => 8,
        Decimal128(_, _) => std::mem::align_of::<i128>(),
        Decimal256(_, _) => std::mem::align_of::<arrow_buffer::i256>(),
        d => width(d).unwrap_or(1),
    }
}

fn fail<T>(class: &str, detail: String) -> Result<T, String> {
    Err(format!("{class}: {detail}"))
}

fn read_int<T: ArrowNativeType + Into<i128>>(buf: &[u8], i: usize) -> i128 {
    let w = std::mem::size_of::<T>();
    let mut tmp = [0u8; 16];
    tmp[..w].copy_from_slice(&buf[i * w..(i + 1) * w]);
    let v: T = unsafe { std::ptr::read_unaligned(tmp.as_ptr() as *const T) };
    v.into()
}
fn read_i(buf: &[u8], i: usize, w: usize, signed: bool) -> i128 {
    match (w, signed) {
        (1, true) => read_int::<i8>(buf, i),
        (2, true) => read_int::<i16>(buf, i),
        (4, true) => read_int::<i32>(buf, i),
        (8, true) => read_int::<i64>(buf, i),
        (1, false) => read_int::<u8>(buf, i),
        (2, false) => read_int::<u16>(buf, i),
        (4, false) => read_int::<u32>(buf, i),
        (8, false) => {
            let mut t = [0u8; 8];
            t.copy_from_slice(&buf[i * 8..i * 8 + 8]);
            u64::from_le_bytes(t) as i128
        }
        _ => unreachable!(),
    }
}

fn check_buf(d: &ArrayData, idx: usize, need_bytes: usize, al: usize, what: &str) -> Result<Vec<u8>, String> {
    let Some(b) = d.buffers().get(idx) else { return fail("buffer-count", format!("{} needs buffer {idx} ({what})", d.data_type())) };
    if b.len() < need_bytes {
        return fail("buffer-size", format!("{} {what}: {} < {need_bytes}", d.data_type(), b.len()));
    }
    if al > 1 && (b.as_ptr() as usize) % al != 0 {
        return fail("buffer-alignment", format!("{} {what}: pointer not {al}-aligned", d.data_type()));
    }
    Ok(b.as_slice().to_vec())
}

fn valid_at(d: &ArrayData, i: usize) -> bool {
    d.nulls().map(|n| n.is_valid(i)).unwrap_or(true)
}

pub fn spec_validate(d: &ArrayData) -> V {
    use DataType::*;
    let dt = d.data_type();
    let (len, off) = (d.len(), d.offset());
    let Some(end) = len.checked_add(off) else { return fail("len-offset-overflow", format!("{len}+{off}")) };
    // validity
    if let Some(n) = d.nulls() {
        if matches!(dt, Null | Union(_, _) | RunEndEncoded(_, _)) {
            return fail("validity-not-allowed", format!("{dt} must not carry a validity bitmap"));
        }
        if n.len() != len {
            return fail("validity-length", format!("{} != {len}", n.len()));
        }
        if n.inner().inner().len() * 8 < n.offset() + len {
            return fail("validity-size", "bitmap too short".into());
        }
        let actual = (0..len).filter(|&i| !n.inner().value(i)).count();
        if actual != n.null_count() {
            return fail("null-count", format!("declared {} actual {actual}", n.null_count()));
        }
    }
    let nbuf = d.buffers().len();
    let nchild = d.child_data().len();
    let expect = |b: usize, c: usize| -> V {
        if nbuf != b {
            return fail("buffer-count", format!("{dt}: {nbuf} buffers, expected {b}"));
        }
        if nchild != c {
            return fail("child-count", format!("{dt}: {nchild} children, expected {c}"));
        }
        Ok(())
    };
    match dt {
        Null => expect(0, 0)?,
        Boolean => {
            expect(1, 0)?;
            check_buf(d, 0, end.div_ceil(8), 1, "values")?;
        }
        Utf8 | Binary | LargeUtf8 | LargeBinary => {
            expect(2, 0)?;
            let w = if matches!(dt, Utf8 | Binary) { 4 } else { 8 };
            let values = d.buffers()[1].as_slice().to_vec();
            let offs = offsets(d, 0, w, end, values.len())?;
            if matches!(dt, Utf8 | LargeUtf8) {
                for i in 0..len {
                    let (s, e) = (offs[off + i], offs[off + i + 1]);
                    if std::str::from_utf8(&values[s..e]).is_err() {
                        return fail("utf8", format!("row {i} is not valid UTF-8"));
                    }
                }
            }
        }
        Utf8View | BinaryView => {
            if nbuf < 1 {
                return fail("buffer-count", "view array needs the views buffer".into());
            }
            if nchild != 0 {
                return fail("child-count", "view array has children".into());
            }
            let views = check_buf(d, 0, end * 16, 16, "views")?;
            for i in off..end {
                let raw = &views[i * 16..i * 16 + 16];
                let l = u32::from_le_bytes(raw[0..4].try_into().unwrap()) as usize;
                let bytes: Vec<u8> = if l <= 12 {
                    if raw[4 + l..16].iter().any(|b| *b != 0) {
                        return fail("view-inline-padding", format!("row {} has non-zero padding", i - off));
                    }
                    raw[4..4 + l].to_vec()
                } else {
                    let bi = u32::from_le_bytes(raw[8..12].try_into().unwrap()) as usize;
                    let bo = u32::from_le_bytes(raw[12..16].try_into().unwrap()) as usize;
                    let Some(b) = d.buffers().get(1 + bi) else { return fail("view-buffer-index", format!("row {}: buffer {bi} of {}", i - off, nbuf - 1)) };
                    if bo.checked_add(l).is_none_or(|e| e > b.len()) {
                        return fail("view-range", format!("row {}: {bo}+{l} > {}", i - off, b.len()));
                    }
                    if b.as_slice()[bo..bo + 4] != raw[4..8] {
                        return fail("view-prefix", format!("row {}: prefix differs from data", i - off));
                    }
                    b.as_slice()[bo..bo + l].to_vec()
                };
                if matches!(dt, Utf8View) && std::str::from_utf8(&bytes).is_err() {
                    return fail("utf8", format!("view row {} is not valid UTF-8", i - off));
                }
            }
        }
        FixedSizeBinary(k) => {
            expect(1, 0)?;
            if *k < 0 {
                return fail("negative-size", format!("{k}"));
            }
            check_buf(d, 0, end * (*k as usize), 1, "values")?;
        }
        List(f) | LargeList(f) | Map(f, _) => {
            expect(1, 1)?;
            let w = if matches!(dt, LargeList(_)) { 8 } else { 4 };
            let c = &d.child_data()[0];
            if c.data_type() != f.data_type() {
                return fail("child-type", format!("{} vs field {}", c.data_type(), f.data_type()));
            }
            let offs = offsets(d, 0, w, end, c.len())?;
            spec_validate(c)?;
            if let Map(_, _) = dt {
                let Struct(kv) = c.data_type() else { return fail("map-entries", "entries must be a struct".into()) };
                if kv.len() != 2 {
                    return fail("map-entries", format!("{} entry fields", kv.len()));
                }
                if c.nulls().map(|n| n.null_count()).unwrap_or(0) != 0 {
                    return fail("map-entries", "entries struct has nulls".into());
                }
                let keys = &c.child_data()[0];
                if keys.nulls().map(|n| n.null_count()).unwrap_or(0) != 0 {
                    return fail("map-keys", "null key".into());
                }
            }
            if !f.is_nullable() && len > 0 {
                // no nulls inside ranges referenced by valid rows
                if let Some(cn) = c.nulls() {
                    for i in 0..len {
                        if valid_at(d, i) {
                            for j in offs[off + i]..offs[off + i + 1] {
                                if cn.is_null(j) {
                                    return fail("non-nullable-child", format!("row {i} item {j} is null"));
                                }
                            }
                        }
                    }
                }
            }
        }
        ListView(f) | LargeListView(f) => {
            expect(2, 1)?;
            let w = if matches!(dt, ListView(_)) { 4 } else { 8 };
            let c = &d.child_data()[0];
            if c.data_type() != f.data_type() {
                return fail("child-type", format!("{} vs field {}", c.data_type(), f.data_type()));
            }
            let ob = check_buf(d, 0, end * w, w, "offsets")?;
            let sb = check_buf(d, 1, end * w, w, "sizes")?;
            for i in off..end {
                let (o, s) = (read_i(&ob, i, w, true), read_i(&sb, i, w, true));
                if o < 0 || s < 0 || o + s > c.len() as i128 {
                    return fail("list-view-range", format!("row {}: offset {o} size {s} child {}", i - off, c.len()));
                }
            }
            spec_validate(c)?;
        }
        FixedSizeList(f, k) => {
            expect(0, 1)?;
            if *k < 0 {
                return fail("negative-size", format!("{k}"));
            }
            let c = &d.child_data()[0];
            if c.data_type() != f.data_type() {
                return fail("child-type", format!("{} vs field {}", c.data_type(), f.data_type()));
            }
            let need = end.checked_mul(*k as usize).ok_or("fixed-size-list overflow")?;
            if c.len() < need {
                return fail("child-length", format!("fixed size list child {} < (offset+len)*size {need}", c.len()));
            }
            spec_validate(c)?;
        }
        Struct(fs) => {
            expect(0, fs.len())?;
            for (c, f) in d.child_data().iter().zip(fs.iter()) {
                if c.data_type() != f.data_type() {
                    return fail("child-type", format!("{} vs field {}", c.data_type(), f.data_type()));
                }
                if c.len() < end {
                    return fail("child-length", format!("struct child {} < offset+len {end}", c.len()));
                }
                spec_validate(c)?;
                if !f.is_nullable() {
                    if let Some(cn) = c.nulls() {
                        for i in 0..len {
                            if valid_at(d, i) && cn.is_null(off + i) {
                                return fail("non-nullable-child", format!("struct field {} row {i} is null", f.name()));
                            }
                        }
                    }
                }
            }
        }
        Dictionary(k, v) => {
            expect(1, 1)?;
            let c = &d.child_data()[0];
            if c.data_type() != v.as_ref() {
                return fail("child-type", format!("dictionary values {} vs {}", c.data_type(), v));
            }
            let w = width(k).ok_or("dictionary key type")?;
            let signed = matches!(k.as_ref(), Int8 | Int16 | Int32 | Int64);
            let kb = check_buf(d, 0, end * w, w, "keys")?;
            for i in 0..len {
                if valid_at(d, i) {
                    let key = read_i(&kb, off + i, w, signed);
                    if key < 0 || key >= c.len() as i128 {
                        return fail("dictionary-key", format!("row {i}: key {key} not in 0..{}", c.len()));
                    }
                }
            }
            spec_validate(c)?;
        }
        RunEndEncoded(rf, vf) => {
            expect(0, 2)?;
            let (re, va) = (&d.child_data()[0], &d.child_data()[1]);
            if re.data_type() != rf.data_type() || va.data_type() != vf.data_type() {
                return fail("child-type", "run-end children".into());
            }
            if re.nulls().map(|n| n.null_count()).unwrap_or(0) != 0 {
                return fail("run-ends-null", "run ends contain nulls".into());
            }
            if re.len() != va.len() {
                return fail("child-length", format!("run_ends {} vs values {}", re.len(), va.len()));
            }
            spec_validate(re)?;
            spec_validate(va)?;
            let w = width(re.data_type()).ok_or("run end type")?;
            let rb = re.buffers()[0].as_slice();
            let mut prev = 0i128;
            for i in 0..re.len() {
                let e = read_i(rb, re.offset() + i, w, true);
                if e <= prev {
                    return fail("run-ends-order", format!("run end {i} = {e} after {prev}"));
                }
                prev = e;
            }
            if len > 0 && prev < end as i128 {
                return fail("run-ends-short", format!("last run end {prev} < offset+len {end}"));
            }
        }
        Union(fs, mode) => {
            let dense = matches!(mode, UnionMode::Dense);
            expect(if dense { 2 } else { 1 }, fs.len())?;
            let tb = check_buf(d, 0, end, 1, "type ids")?;
            let ob = if dense { Some(check_buf(d, 1, end * 4, 4, "offsets")?) } else { None };
            let ids: Vec<i8> = fs.iter().map(|(t, _)| t).collect();
            for ((_, f), c) in fs.iter().zip(d.child_data()) {
                if c.data_type() != f.data_type() {
                    return fail("child-type", format!("union child {} vs field {}", c.data_type(), f.data_type()));
                }
                if !dense && c.len() < end {
                    return fail("child-length", format!("sparse union child {} < offset+len {end}", c.len()));
                }
                spec_validate(c)?;
            }
            for i in off..end {
                let t = tb[i] as i8;
                let Some(ci) = ids.iter().position(|x| *x == t) else { return fail("union-type-id", format!("row {}: type id {t} not declared", i - off)) };
                if let Some(ob) = &ob {
                    let o = read_i(ob, i, 4, true);
                    if o < 0 || o >= d.child_data()[ci].len() as i128 {
                        return fail("union-offset", format!("row {}: offset {o} child len {}", i - off, d.child_data()[ci].len()));
                    }
                }
            }
        }
        prim => {
            let Some(w) = width(prim) else { return fail("unsupported-type", format!("{prim}")) };
            expect(1, 0)?;
            check_buf(d, 0, end * w, align(prim), "values")?;
        }
    }
    Ok(())
}

/// reads offsets [0, end] (width w), checks monotonicity / bounds; tolerates an empty offsets buffer
/// for an empty array (arrow-rs relaxation)
fn offsets(d: &ArrayData, idx: usize, w: usize, end: usize, child_len: usize) -> Result<Vec<usize>, String> {
    let Some(b) = d.buffers().get(idx) else { return fail("buffer-count", "missing offsets".into()) };
    if d.len() == 0 && b.is_empty() {
        return Ok(vec![0; end + 1]);
    }
    let ob = check_buf(d, idx, (end + 1) * w, w, "offsets")?;
    let mut out = Vec::with_capacity(end + 1);
    let mut prev = 0i128;
    for i in 0..=end {
        let o = read_i(&ob, i, w, true);
        // only the addressed window [offset, offset+len] is constrained
        if i >= d.offset() {
            if o < 0 {
                return fail("offset-negative", format!("offset {i} = {o}"));
            }
            if i > d.offset() && o < prev {
                return fail("offset-order", format!("offset {i} = {o} < {prev}"));
            }
            if o > child_len as i128 {
                return fail("offset-bounds", format!("offset {i} = {o} > values length {child_len}"));
            }
            prev = o;
        }
        out.push(o.max(0) as usize);
    }
    Ok(out)
}

pub fn batch_validate(b: &RecordBatch) -> V {
    let s = b.schema();
    if s.fields().len() != b.num_columns() {
        return fail("batch-columns", format!("{} fields vs {} columns", s.fields().len(), b.num_columns()));
    }
    for (f, c) in s.fields().iter().zip(b.columns()) {
        if f.data_type() != c.data_type() {
            return fail("batch-column-type", format!("field {} is {} but column is {}", f.name(), f.data_type(), c.data_type()));
        }
        if c.len() != b.num_rows() {
            return fail("batch-column-length", format!("column {} has {} rows, batch {}", f.name(), c.len(), b.num_rows()));
        }
        if !f.is_nullable() && c.logical_null_count() > 0 && !matches!(c.data_type(), DataType::Null) {
            return fail("batch-nullability", format!("non-nullable field {} has nulls", f.name()));
        }
        spec_validate(&c.to_data()).map_err(|e| format!("column {}: {e}", f.name()))?;
    }
    Ok(())
}

/// spec_validate + arrow's own validate_full, for monitoring arrays returned by library calls
pub fn well_formed(a: &dyn arrow_array::Array) -> V {
    let d = a.to_data();
    spec_validate(&d)?;
    match d.validate_full() {
        Ok(()) => Ok(()),
        // ArrayData::validate compares the validity buffer's byte length with data.offset()+len although the
        // NullBuffer carries its own offset (e.g. BooleanArray -> ArrayData keeps the values' bit offset as
        // data.offset with an unsliced validity buffer): a false *rejection* of a well-formed array, which no
        // listed property forbids. spec_validate above makes the correct check with the null buffer's own offset.
        Err(e) if e.to_string().contains("null_bit_buffer size too small") => Ok(()),
        Err(e) => Err(format!("validate_full: {e}")),
    }
}
