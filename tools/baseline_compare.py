#!/usr/bin/env python3
"""Compare a `cargo nextest run` log with the pinned baseline (/root/.vp/BASELINE.json).
usage: baseline_compare.py <nextest-log> [crate-prefix ...]
Prints the stable_pass tests (restricted to the given crate prefixes, if any) that did not PASS."""
import json, re, sys
b = json.load(open('/root/.vp/BASELINE.json'))
stable = set(b['stable_pass'])
log = open(sys.argv[1], errors='replace').read()
pref = sys.argv[2:]
res = {}
for m in re.finditer(r'^\s*(PASS|FAIL|TIMEOUT|SIGABRT|SIGSEGV|LEAK|FLAKY[^\[]*|ABORT)\s*\[[^\]]*\]\s*(?:\([^)]*\)\s*)?(\S+)\s+(\S+)', log, re.M):
    st, binid, name = m.group(1).split()[0], m.group(2), m.group(3)
    key = f'{binid}::{name}'
    if st == 'LEAK': st = 'PASS'  # passed, but a handle outlived the test (load)
    if res.get(key) != 'PASS':
        res[key] = st
    else:
        pass
if not any(v == 'PASS' for v in res.values()) and re.search(r'Summary \[.*\] *\d+ tests run: *\d+ passed', log):
    # profile that prints failures only: every stable test not reported as failed has passed
    # (the summary line gives the totals)
    print(re.search(r'Summary \[.*', log).group(0).strip())
    for t in stable:
        res.setdefault(t, 'PASS')
want = [t for t in stable if not pref or any(t.startswith(p + '::') for p in pref)]
bad = [(t, res.get(t, 'NOT-RUN')) for t in want if res.get(t) != 'PASS']
print(f'stable tests considered: {len(want)}; passed: {len(want) - len(bad)}; not passed: {len(bad)}')
for t, s in sorted(bad)[:60]:
    print(' ', s, t)
