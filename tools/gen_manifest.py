#!/usr/bin/env python3
"""Regenerates MANIFEST.json from the table below and validates it (and every evidence file present)
against the schemas in /root/.vp when those are available."""
import json, os, sys
HERE = os.path.dirname(os.path.dirname(os.path.abspath(__file__)))

# id -> (engine, category, technique, text, note, design_ref)
CHECKS = {
 "C19": ("vk-buffer", "exploration",
   "bounded exhaustive enumeration of (offset, offset, length, content, surround, misalignment) against a Vec<bool> model; explicit-state BFS over builder histories",
   "Every operation of the bit-mask layer is executed on the complete product of source offset 0..=130 x second offset 0..=130 x length 0..=200 (the property's own quantifier) x content patterns x surrounding-bit fillings x base misalignments and compared bit for bit with a Vec<bool> model, with canaries for bits outside the addressed range; builders are explored as histories (BFS, state = model contents). Exhaustive inside the stated bounds, nothing sampled.",
   "Trusted: the 10-line Vec<bool> reference semantics per operation; word closures are bitwise-local as the API documents; content alphabet is patterns + two fixed xorshift streams, not all 2^len contents (thorough adds all contents for len<=12).",
   "DESIGN.md section 4, C19"),
 "C01": ("vk-compute", "exploration",
   "bounded exhaustive enumeration of kernel pipelines (programs of depth <= 2) over an input universe of all small columns in every physical layout, every returned array checked by an independent spec validator",
   "All programs k1 and k1|k2 over the kernel alphabet (selection, arithmetic, comparison, boolean, sort/rank/partition, cast, string, temporal, row format, dictionary gc; ~110 instantiated operations) are run from every array of U = 62 grid types x all columns of length <= 3 over a 4-letter alphabet plus null x every layout with <= 1 deviation (sliced at 7 offsets, validity buffer present/absent, garbage under nulls, non-zero first offset, padded values, dictionary permuted/duplicated/unused/null-valued, view buffers repartitioned, runs split, list-view children reordered/overlapping/gapped, union children permuted, misaligned base); stage outputs are passed on as produced. Every array any stage returns must satisfy vmodel::spec_validate (written from the Arrow format document) and ArrayData::validate_full. Exhaustive within these bounds; programs deeper than 2 and longer arrays are outside.",
   "Trusted: vmodel::spec_validate. Format readers are monitored by their own checks (C04/C05/C08/C14/C17), not re-run here; the force_validate build variant is not built yet.",
   "DESIGN.md section 4, C01"),
 "C02": ("vk-compute", "exploration",
   "bounded exhaustive enumeration of (type, column, layout) realisations with a layout-independent value model: accessor round trip, pairwise equality, kernel congruence across layouts, commutation with take/slice/concat",
   "(a) extract(realise(col, layout)) == col, logical nulls, null counts and formatter text for 62 types x all columns (len <= 3) x all layouts with <= 2 deviations; (b) a1 == a2 iff the logical columns are equal for all pairs of (column of len <= 2, layout with <= 1 deviation) per type, also through ArrayData::eq; (c) each of ~110 kernels gives the same outcome class and the same extracted values on every layout of the same column as on the compact one (binary kernels with the other operand in compact and sliced layouts, both sides); (d) row-wise kernels commute with every index vector of length <= 2, every slice and every two-way concat split.",
   "Trusted: vmodel realise/extract (validated by (a) itself: a bug in either shows up as a round-trip failure). == is compared with the model except for the dict-null-value layout (physical validity is documented to matter). Panics that occur on every layout alike are counted, not violations.",
   "DESIGN.md section 4, C02"),
 "C03": ("vk-compute", "model_checking",
   "explicit-state BFS over BatchCoalescer push/filter/indices/finish/next histories against a row-id model, plus bounded exhaustive enumeration of selection-kernel arguments against naive row-by-row references",
   "Kernels: filter (+optimized, sliced predicate), take (4 index types, nulls with out-of-range payload, duplicates, check_bounds), nullif, zip, slice, shift, concat, interleave, dictionary gc and the record-batch forms, for 62 types x all columns (len <= 3) x all layouts (<= 1 deviation) x every mask in {T,F,null}^n / every index vector of length <= 2 / every interleave list of length <= 2; structured filter families crossing the 0.8-selectivity, len/16 and 64-bit-word thresholds up to 1025 rows. Coalescer: BFS to depth 4 (6 thorough) over 32 operations for 5 schemas x target sizes {1,2,3,5} x bypass limit {None,2,4}; every transition runs on the real coalescer and is compared with the model (buffered rows, completed queue, emitted batches, exact batch sizes, final drain).",
   "Trusted: the ten-line reference implementations on Vec<Val>. Union columns are excluded from null-index / shift / nullif (no validity of their own). With a bypass limit only the row sequence is checked, as the property states.",
   "DESIGN.md section 4, C03"),
 "C04": ("vk-ipc", "model_checking",
   "explicit-state BFS over per-batch dictionary evolution histories for every writer x handling mode against a DictionaryTracker model, plus bounded exhaustive enumeration of (type, column, layout, option point, batch sequence, projection) round trips through every IPC and Flight writer/reader pair",
   "78 (125) types x nullable/non-nullable x every column of length <= 3 (4) x 22 physical layouts (sliced(p,q) for p in {1,3,8,9,63,64,65}, garbage under nulls, non-zero first offset, unused trailing values, sliced children) through FileWriter / StreamWriter / StreamEncoder / IpcDataGenerator -> FileReader (+projection) / FileDecoder / StreamReader / StreamDecoder, and FlightDataEncoder / batches_to_flight_data -> FlightRecordBatchStream / FlightDataDecoder / flight_data_to_batches; every option point within 2 (3) deviations (alignment, metadata version, compression, dictionary handling, Flight message size and dictionary handling); batch sequences of <= 3 batches incl. empty and zero-column batches, every projection, schema/field/custom metadata. Dictionary histories: BFS over 7 per-batch actions per dictionary field in 77 configurations; a writer error is accepted only where documented and is then required. Oracle: schema equality and batch-by-batch logical equality (hydrated / concatenated for Flight), validate_full on everything decoded.",
   "Trusted: the engine's own logical extraction. The tonic transport is not driven (encoder/decoder run as in-process streams).",
   "DESIGN.md section 4, C04; engine/vk-ipc/STATUS.md"),
 "C05": ("vk-pqwrite", "exploration",
   "deviation-bounded exhaustive product of (Arrow type, column, physical layout, 22 writer/reader configuration dimensions), every composition of rows into write()/flush() calls, and every interleaving of per-column writer operations (single thread and real threads under a baton scheduler), each written with ArrowWriter and read back",
   "134 types (flat: ints, floats with NaN payloads and signed zeros, decimals 32/64/128/256, temporal, strings/binaries/views/fixed, Boolean, dictionaries, run-end; nesting family: list in all nullable combinations, large list, list view, fixed-size list, list of list, struct of list, list of struct, struct of struct, map) x every column of length <= N over the type alphabet (null at every level, empty list, list of nulls) x 1 + 46 + 996 configurations within 2 deviations (thorough: + 13,514 at 3) over writer version, dictionary on/off and page limit, every valid encoding, data page size / row count limits, write batch size, row group size, 7 codecs, statistics level, bloom filter, content-defined chunking, coerce_types, offset index, input layout (compact / sliced / garbage under nulls), reader batch size; histories: every composition of <= 5 rows into write() calls x every flush subset x empty writes; long columns around 8 / 128 / 1024 rows x 14 patterns x 6 encoder bases; parallel path: all interleavings of ArrowColumnWriter operations for <= 3 leaves and <= 2 batches. Oracle: schema (types, names, nullability) and rows equal (dictionary / run-end by denoted values, floats by bits), validate_full on every decoded batch, explicit flush = row-group boundary. 4.06 M cases quick, 63.4 M thorough.",
   "Trusted: the engine's own extract. Documented representation changes (top-level RunEndEncoded flattened, coerce_types) are applied to the expectation, each citing the writer documentation. Encryption, custom parquet schema and nested run-end are outside.",
   "DESIGN.md section 4, C05; engine/vk-pqwrite/STATUS.md"),
 "C07": ("vk-pqwrite", "exploration",
   "bounded exhaustive enumeration of (physical x logical type, value sequence, page layout, truncation length, statistics level, bloom settings) through the low-level and Arrow writers, every produced file re-opened and every statistic checked against the decoded pages with a sort-order model written from the format specification",
   "28 physical x logical types through SerializedFileWriter (incl. variable-length BYTE_ARRAY decimals) x all sequences of <= 3 values over boundary alphabets (NaN payloads, +-0, +-inf, MIN/MAX, decimal sign-extension cases) x a 288-point configuration product; every string of <= 3 characters over {a, 0x7F, e-acute, euro, U+1D11E, U+D7FF, U+E000, U+10FFFF} and every <= 3-byte binary over {00,7F,80,FF} (and pairs) x 98 truncation configurations x 5 writer paths; bloom filters with 40-3000 distinct values; 59 Arrow types through ArrowWriter and StatisticsConverter. Oracle: chunk / page-header / column-index min <= v <= max for all non-null non-NaN values, exact flags attained, null / NaN / row counts exact, null_pages and boundary_order true, offset index delimits exactly the scanned pages, every written value passes Sbbf::check, StatisticsConverter outputs sound. 4.37 M cases quick, 35.3 M thorough.",
   "Trusted: the model comparator per sort order. Nested columns other than List<Int32>, geospatial and size statistics are outside.",
   "DESIGN.md section 4, C07; engine/vk-pqwrite/STATUS.md"),
 "C06": ("vk-pqread", "exploration",
   "bounded exhaustive enumeration of reader option points (deviation-bounded product with a fully multiplied selection x offset x limit core) over generated Parquet files against a reference computed on rows; exhaustive RowSelection algebra against sets of positions",
   "36 in-memory files (6 schemas incl. nested x 6 physical layouts: 1/3 unequal row groups, 1-3 rows per page, offset index on/off, dictionary on/off, v1/v2 pages; unique row ids) read under every configuration within 2 deviations of default (projection subsets, row-group lists incl. non-ascending, batch size, selection policy, page index, 9 predicate chains incl. predicate-only columns and null results, cache size 0) crossed with all 2^T row selections x 5 presentations x 6 offsets x 5 limits (reduced at 2 deviations); result rows, schema, batch bounds and validate_full compared with row-group choice -> selection -> predicates -> offset -> limit -> projection on Vec<row>. Algebra: all 127 selections over length <= 6 x 6 presentations, all ordered pairs: and_then, intersection, union, split_off(k), from_filters, from_consecutive_ranges, counts, iter, ==, scan_ranges against every page layout of <= 4 pages.",
   "Trusted: the reference pipeline on Vec<row> and ArrowWriter as the file generator (its output is compared once with the written data). Files of 8-10 rows; 3 simultaneous deviations are outside.",
   "DESIGN.md section 4, C06; engine/vk-pqread/STATUS.md"),
 "C15": ("vk-pqread", "model_checking",
   "stateless depth-first exploration of environment answers (I/O schedules) of the real push decoder and async stream with a deviation bound, every trace executed on the implementation and compared with the synchronous reader",
   "Push decoder (3 API modes): before each call 8 alternative environment actions (early pushes of whole file / row groups, into_builder rebuilds at row-group boundaries, clear_all_ranges, API switch) and 14 answers to each NeedsData (exact, permuted, one-by-one, duplicated, strict subsets, +-1 byte, enclosing range, whole row group, whole file, next row group early); async stream over a hand-written AsyncFileReader and executor (per-range/vectored, metadata up front/fetched, poll_next/next_row_group, spurious polls; every subset of futures pending once up to the bound). Bound 2 deviations quick, 3-4 thorough, over 36 files x 12-15 option points plus option sweeps. Oracle: rows equal the sync reader's, requested ranges non-empty and inside the file, progress after exact answers, re-request after subset answers, buffered_bytes accounting, Finished sticky, no lost wake-ups.",
   "Trusted: the synchronous reader as the row oracle (tied to the reference model by C06). Futures pend at most once; into_builder rebuilds keep projection and filter.",
   "DESIGN.md section 4, C15; engine/vk-pqread/STATUS.md"),
 "C08": ("vk-untrusted", "fault_enumeration",
   "exhaustive single-fault mutation (every bit flip / byte value, every truncation, every length-field inflation, cross-splices) of a generated corpus of valid inputs of every format, each mutant read in a watchdog-guarded subprocess with an allocation meter",
   "Corpus generated at check time by the library's own writers (IPC files/streams incl. dictionaries, views, unions, compression; Parquet files over encodings x codecs x page versions x nesting, with and without page index; Avro OCF per codec and single-object frames; CSV and JSON texts; Variant metadata/value pairs). Mutations: every byte position x every single-bit flip (quick) / every other byte value (thorough); every truncation length; every 4- and 8-byte little-endian window and varint start overwritten by each of 12 boundary values; cross-splices at structural boundaries (thorough); all Variant value byte strings of length <= 2. Readers: IPC FileReader / StreamReader / StreamDecoder / Flight decoders, Parquet metadata reader and record-batch reader with and without page index, Avro Reader and Decoder, CSV, JSON, Variant::try_new + full traversal. Oracle: Err, or Ok with every column passing validate_full and schema agreement; no panic; termination (watchdog); peak allocation <= max(64 MiB, 4096 x input length). 2.25 M mutants quick, 25.5 M thorough.",
   "Trusted: ArrayData::validate_full as the validity judge (its false rejection 'null_bit_buffer size too small' is ignored). Fingerprints are per (reader entry point, panic site / allocation site / hang), so one missing bound is one finding.",
   "DESIGN.md section 4, C08; engine/vk-untrusted/STATUS.md"),
 "C09": ("vk-compute", "exploration",
   "bounded exhaustive enumeration of single mutilations of valid ArrayData against validating constructors, acceptance checked by an independent validator written from the Arrow format specification",
   "For 62 types x all columns (len <= 2) x layouts (<= 1 deviation): every mutilation of a type-agnostic menu (len/offset +-1 and overflowing, buffer dropped/added/truncated by a byte or an element/misaligned, validity short/forbidden/wrong null_count, child dropped/added/retyped/shortened/lengthened, every cell of every offsets/sizes/keys/type-id/view/value buffer of the array and its children overwritten by each of 8 replacement values) is fed to ArrayData::try_new, ArrayDataBuilder::build (with and without align_buffers) and new_unchecked+validate_full; whatever is accepted must pass vmodel::spec_validate; RecordBatch::try_new(_with_options) trials.",
   "Trusted: vmodel::spec_validate (it is never stricter than arrow-rs documents: arbitrary payload under nulls for dictionary keys, empty offsets for empty arrays). Only single mutilations; typed try_new constructors and the C Data Interface import path are not driven yet.",
   "DESIGN.md section 4, C09"),
 "C10": ("vk-ord", "exploration",
   "bounded exhaustive enumeration of (type, column, layout, SortOptions, limit, column tuple) against a model order on logical values: comparator laws, sort/lexsort/rank/partition and the eight comparison kernels in every Datum form",
   "64 (99) sortable types incl. dictionary, run-end, views, decimals, intervals, nested list/struct/map x all columns of length <= 4 over alphabets with NaNs of both signs and payloads, +-0, nulls, duplicates x 5 layouts (compact, sliced, garbage under nulls, alternative encodings) x 4 SortOptions x limits 0..=len+1; tuples of <= 3 columns with independent options; all pairs of columns (len <= 3) for eq/neq/lt/lt_eq/gt/gt_eq/distinct/not_distinct in array/array, array/scalar, scalar/array, scalar/scalar forms; long families to 1025 rows for the non-comparison fast paths. Oracle: comparator reflexive/antisymmetric/transitive, equal to the model order (IEEE totalOrder), Equal iff ==; sort_to_indices a permutation sorted under the comparator (prefix under a limit); lexsort for the tuple order; rank / partition as documented; kernels per row = comparator with documented null handling. 262 M evaluations quick, 3.1 G thorough.",
   "Trusted: the model order on the engine's value model. arrow_ord::comparison (doc-hidden) is not driven.",
   "DESIGN.md section 4, C10; engine/vk-ord/STATUS.md"),
 "C11": ("vk-ord", "exploration",
   "bounded exhaustive enumeration of (field types, SortOptions, values incl. every variable length around the 8/32-byte block edges with sentinel bytes, conversion path) with all pairs of produced rows compared against the model tuple order",
   "77 (109) field types x 4 SortOptions, tuples of <= 2 (3) fields, variable-length values of every length in {0,1,7,8,9,31,32,33,63,64,65} over bytes {00,01,02,03,FE,FF} directly and through seven wrapper types, nested values with nulls at every level, dictionaries and run-end inputs, columns of length <= 3, compact and sliced layouts; rows produced by one conversion, by append, and by a second conversion with the same converter, compared across all pairs. Oracle: byte order == model tuple order (cross-checked with make_comparator), byte-equal iff logically equal, convert_rows of every selection == take of the inputs (hydrated), Rows<->binary round trip, RowParser, OwnedRow. 171 M evaluations quick, 1.6 G thorough.",
   "Trusted: the model order; documented caveats (map entry order, union per-branch nulls, dictionary hydration) are encoded in the model.",
   "DESIGN.md section 4, C11; engine/vk-ord/STATUS.md"),
 "C20": ("vk-string", "exploration",
   "exhaustive enumeration of every LIKE pattern of length <= 4 (5) x every haystack of length <= 3 over Unicode-mixing alphabets x operators x scalar/array forms x encodings, against a naive character-level matcher; needle predicates, regexes, substrings and concatenation likewise",
   "7,381 (66,430) patterns over {% _ \\ a A k e-acute . newline} x 6,175 haystacks over 18 scalar values (ASCII, multi-byte, combining, case-varying incl. KELVIN SIGN, regex metacharacters, the wildcards themselves) x like/ilike/nlike/nilike x scalar and array patterns (runs, nulls, cache-exercising repeats) x Utf8 / LargeUtf8 / Utf8View (inline and buffer-backed) / Dictionary with layouts (sliced, nulls over hidden bytes, permuted/unused/null dictionary values); starts_with / ends_with / contains for all needle x haystack pairs incl. binary types; every compiling regex of length <= 4 (5) over {a . * ^ $ ( ) | e-acute} with flags none/i against the regex crate; substring and substring_by_char for all (start, length) in -5..=5 x {None, 0..=5}; length, bit_length, every concat_elements variant. 3.25 G kernel rows quick, 33 G thorough.",
   "Trusted: the naive backtracking matcher on chars and a precomputed single-character case-folding table taken from the regex engine (the property's own definition). Regex semantics are the regex crate's.",
   "DESIGN.md section 4, C20; engine/vk-string/STATUS.md"),
 "C12": ("vk-arith", "exploration",
   "exhaustive enumeration of all 8-bit operand pairs (and 16-bit values against a boundary set; full 16x16 in thorough), boundary lattices for wider integers / decimals / i256 / temporal types, all null patterns and aggregate lengths around lane sizes, all Kleene inputs, against an exact big-integer reference",
   "All 65,536 operand pairs for Int8/UInt8 x {add, sub, mul, div, rem, wrapping forms, neg, bitwise, shifts} x {array-array, array-scalar, scalar-array}; all 16-bit values x a 40-value boundary set both ways (thorough: the full 16x16 square for add/sub/mul, 45.5 G evaluations); boundary lattice BxB for 32/64-bit ints, Decimal32/64/128/256 over a precision/scale grid incl. negative and extreme scales, i256 and interval types directly, timestamp/date/duration/interval arithmetic against an own Gregorian model; null patterns {valid,null}^n with overflow-provoking garbage under nulls, sliced inputs; aggregates for every length in {0,1,7,8,9,63,64,65,127,128,129,257} with a poison value at every position of the first and last lane group; Kleene and/or/not on all {T,F,N}^n pairs at bit offsets 0..=9. Every pair's outcome is individually determined (packed Ok calls plus one-row calls).",
   "Trusted: num-bigint as exact integer arithmetic and the documented result precision/scale formulas for decimals. Where documentation does not decide Ok vs Err the case is classified undocumented-domain and only the value of a successful call is checked.",
   "DESIGN.md section 4, C12; engine/vk-arith/STATUS.md"),
 "C14": ("vk-stream", "model_checking",
   "exhaustive enumeration of chunkings (all 2^(n-1) partitions of short inputs; all single, pair and boundary-subset cuts of longer ones), flush placements and delivery policies of the real incremental decoders, every trace compared with the single-chunk run and the one-shot reader",
   "Nine decoder families (CSV decoder and reader, JSON decoder and reader, IPC StreamDecoder, Avro Decoder, Avro OCF reader, Parquet metadata push decoder, Flight data decoder), each driven by its documented protocol: inputs of <= 14-15 (16-20) bytes under all partitions, longer inputs under every single cut, every pair (triple), every uniform chunk size and all subsets of token/message-boundary cuts; empty chunks and flush placements where allowed; batch sizes {1,2,3,1024}; every single-byte corruption of the two shortest corpus entries per family (error outcomes compared too); Parquet ranges under 10 delivery policies and prefetched suffixes; Flight streams with Pending before every subset of messages. 5.9 M traces / 258 k decoder-observable states in quick.",
   "Trusted: the single-chunk run as the reference (tied to the one-shot reader on the valid corpus). Corrupted Avro OCF inputs that make the library spin are screened out in a watchdog subprocess and listed in the evidence.",
   "DESIGN.md section 4, C14; engine/vk-stream/STATUS.md"),
 "C17": ("vk-text", "exploration",
   "bounded exhaustive enumeration of (schema, column, option point) round trips for CSV, JSON and Avro with independent decoders of the written bytes and independent encoders (grammar enumeration) as second opinions",
   "Round trip read(write(batch)) == batch for 36 CSV column types, 43 scalar + 19 nested JSON types, 48 Avro columns x all columns of <= 2 (3) rows over metacharacter-rich alphabets (every string of <= 2 characters over 15-20 characters incl. delimiters, quotes, CR/LF, controls, non-BMP; 64-bit extremes; hard shortest-round-trip floats; decimal precision limits; epoch/year-boundary timestamps) x every option point within 2 (3) deviations of default (17 CSV, 11 JSON, 8 Avro dimensions incl. every codec and framing), only where the text is unambiguous by construction. Independent decoders: an own RFC 4180 state machine and per-type text decoders; an own strict RFC 8259 parser cross-checked with serde_json on every document; apache-avro 0.22. Independent encoders: every JSON document of four grammars (numbers <= 5 (6) chars, strings of <= 3 tokens of 41, whitespace placements, structures of <= 5 (6) tokens) and RFC 4180 texts from a grammar must be read with the same values; apache-avro-written bytes must decode identically. 12 M evaluations quick, 116 M thorough.",
   "Trusted: serde_json (float_roundtrip) + own parser agreement, apache-avro 0.22, the own RFC 4180 splitter. The reject direction for JSON is observed only (arrow-json documents no strictness).",
   "DESIGN.md section 4, C17; engine/vk-text/STATUS.md"),
 "C18": ("vk-stream", "fault_enumeration",
   "exhaustive single-fault (thorough: pairs) injection at every sink/source call index of 17 writer scripts and 9 readers, and every truncation length of every produced file",
   "Writers: IPC file/stream (plain, buffered, LZ4, ZSTD), Parquet ArrowWriter / SerializedFileWriter / AsyncArrowWriter, Avro OCF and single-object, CSV, JSON lines/array; a fault-free run learns the call count n, then one run per (k < n, fault in {Other, BrokenPipe, Interrupted, Ok(0), short 1, short half}, once or persistent, stop or keep going), at three sink granularities. Oracle: no panic / bounded steps; finish Ok implies the accepted bytes equal the fault-free output; accepted bytes are always a prefix. Readers under read/seek faults: Err or the fault-free result. Truncation: every prefix of every produced file with every reader of the format: footer formats rejected, self-delimiting formats yield a prefix of the rows.",
   "Trusted: the fault-free output as the byte reference (Avro OCF sync marker masked). No subprocess watchdog: hangs are guarded by in-process step counters.",
   "DESIGN.md section 4, C18; engine/vk-stream/STATUS.md"),
 "C13": ("vk-cast", "exploration",
   "bounded exhaustive enumeration of the ordered-pair cast matrix over a type grid x small columns x layouts, exhaustive 8/16-bit and Float16 sources, every calendar day 0001-9999, and a DataType grammar, against documented-semantics references and relational oracles",
   "Complete ordered-pair product of a 92-type grid (8464 pairs, 5136 accepted by can_cast_types): O1 can_cast_types implies no unsupported-class error on the empty and all-null column; O2 strict/safe duality row-wise on every column of length <= 2 (3) over the full alphabet and <= 3 (5) over core letters x {compact, sliced, garbage-under-nulls}; O3 exact references only where a documentation sentence pins the value (each family cites it); O4 inverse identities on 648 lossless pairs; exhaustive sources: all values of Int8/UInt8/Int16/UInt16 and all Float16 bit patterns to every castable target in both modes; text: every Date32 day of years 0001-9999 and timestamp lattices in 4 zones through format and parse, every FormatOptions field one deviation from default; DataType Display->FromStr over a depth-2 grammar (12k / 20k types).",
   "Trusted: the per-family reference semantics derived from the cited documentation sentences; named IANA zones and unions are outside the grid.",
   "DESIGN.md section 4, C13; engine/vk-cast/STATUS.md"),
 "C16": ("vk-buffer", "model_checking",
   "explicit-state BFS over operation histories of the real buffer/array/FFI objects against a reference model, plus stateless enumeration of all thread schedules up to a preemption bound under a baton scheduler",
   "States are histories replayed on fresh real objects (Buffer, MutableBuffer, BooleanBuffer, Int32Array, exported/imported C Data Interface structs, bytes::Bytes) sharing one region of each allocation kind (Vec, MutableBuffer, custom owner, bytes crate); 19 operation kinds x handle index, BFS with canonical sharing-graph dedup to depth 6 (quick) / 8 (thorough). After every transition: each live handle still shows its snapshot, the custom owner's release counter is 0 while a handle is alive and 1 afterwards, FFI release callbacks ran once per export, pool.used() lies within the model of live claims, and at teardown everything is released exactly once. Thread part: every 2-3 thread program of 1-2 operations is run under all schedules with <= 2 (3) preemptions.",
   "Sequentially consistent, scheduling points at operation boundaries and at harness-held intermediate states only (no points inside library functions; no weak-memory reasoning). Pool model accepts an interval where arrow-buffer's own tests pin len-based re-sizing of MutableBuffer reservations.",
   "DESIGN.md section 4, C16"),
}
NOT_YET = {}

def main():
    props = [json.loads(l)["id"] for l in open(os.path.join(HERE, "properties.jsonl"))]
    checks = []
    for pid in props:
        if pid not in CHECKS: continue
        eng, cat, tech, text, note, ref = CHECKS[pid]
        checks.append({
            "property_id": pid,
            "quick_cmd": f"./check {pid} --tier quick",
            "thorough_cmd": f"./check {pid} --tier thorough",
            "evidence_file": f"/verif/evidence/{pid}.json",
            "replay_cmd_template": f"./check {pid} --replay {{path}}",
            "engine": eng,
            "level_claimed": {"category": cat, "text": text, "design_ref": ref},
            "level_note": note,
            "technique": tech,
        })
    na = [{"property_id": p, "reason": NOT_YET.get(p, "no check registered yet: the bounded-exhaustive engine for this property (DESIGN.md section 4) is still being built; model checking is applicable, the property is simply not claimed at this commit")} for p in props if p not in CHECKS]
    engines = {}
    for c in checks:
        engines.setdefault(c["engine"], []).append(c["property_id"])
    m = {
        "version": 1,
        "setup_cmd": "cd /verif/engine && CARGO_NET_OFFLINE=true cargo build --release --offline " + " ".join("-p " + e for e in sorted(engines)),
        "hooks": {
            "guard": "verif_hooks",
            "enable": "no source hooks exist: engines link /repo crates by path dependency and drive public APIs only; the name verif_hooks is reserved",
            "baseline_off_cmd": "cd /repo && cargo nextest run --workspace --no-fail-fast --tool-config-file pb:/w/lib/nextest.toml --profile pb --test-threads 8 --offline",
            "source_commits": [],
            "add_only": True,
        },
        "engines": [{"name": k, "path": f"/verif/engine/{k}", "serves_properties": v,
                     "kind_free_text": "Rust binary linking /repo crates by path; bounded exhaustive enumeration / explicit-state history BFS / stateless schedule and fault enumeration on the real code against reference models"} for k, v in sorted(engines.items())],
        "checks": checks,
        "not_applicable": na,
        "notes": "All checks: ./check <ID> --tier quick|thorough. Exit 0 held / 1 unlisted violation / 2 machinery failure. known_findings.json lists recorded and fixed defects.",
    }
    out = os.path.join(HERE, "MANIFEST.json")
    json.dump(m, open(out, "w"), indent=1)
    open(out, "a").write("\n")
    try:
        import jsonschema
        jsonschema.validate(m, json.load(open("/root/.vp/MANIFEST.schema.json")))
        es = json.load(open("/root/.vp/EVIDENCE.schema.json"))
        for c in checks:
            p = c["evidence_file"]
            if os.path.exists(p):
                jsonschema.validate(json.load(open(p)), es)
                ev = json.load(open(p))
                assert ev["level"] == c["level_claimed"]["category"], (p, ev["level"])
        print("MANIFEST ok;", len(checks), "checks,", len(na), "unclaimed")
    except ImportError:
        print("jsonschema not importable here; wrote MANIFEST without validation")

if __name__ == "__main__":
    main()
