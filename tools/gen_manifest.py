#!/usr/bin/env python3
"""Regenerates MANIFEST.json from the table below and validates it (and every evidence file present)
against the schemas in /root/.vp when those are available."""
import json, os, sys
HERE = os.path.dirname(os.path.dirname(os.path.abspath(__file__)))

# id -> (engine, category, technique, text, note, design_ref)
CHECKS = {
 "C19": ("vk-buffer", "exploration",
   "bounded exhaustive enumeration of (offset, offset, length, content, surround, misalignment) against a Vec<bool> model; explicit-state BFS over builder histories",
   "Every operation of the bit-mask layer is executed on the complete product of source offset 0..=130 x second offset 0..=130 x length 0..=200 (the property's own quantifier) x content patterns x surrounding-bit fillings x base misalignments and compared bit for bit with a Vec<bool> model, with canaries for bits outside the addressed range; builders are explored as histories (BFS, state = model contents). Exhaustive inside the stated bounds, nothing sampled.",
   "Trusted: the 10-line Vec<bool> reference semantics per operation; word closures are bitwise-local as the API documents; content alphabet is patterns + two fixed xorshift streams, not all 2^len contents (thorough adds all contents for len<=12).",
   "DESIGN.md section 4, C19"),
 "C01": ("vk-compute", "exploration",
   "bounded exhaustive enumeration of kernel pipelines (programs of depth <= 2) over an input universe of all small columns in every physical layout, every returned array checked by an independent spec validator",
   "All programs k1 and k1|k2 over the kernel alphabet (selection, arithmetic, comparison, boolean, sort/rank/partition, cast, string, temporal, row format, dictionary gc; ~110 instantiated operations) are run from every array of U = 62 grid types x all columns of length <= 3 over a 4-letter alphabet plus null x every layout with <= 1 deviation (sliced at 7 offsets, validity buffer present/absent, garbage under nulls, non-zero first offset, padded values, dictionary permuted/duplicated/unused/null-valued, view buffers repartitioned, runs split, list-view children reordered/overlapping/gapped, union children permuted, misaligned base); stage outputs are passed on as produced. Every array any stage returns must satisfy vmodel::spec_validate (written from the Arrow format document) and ArrayData::validate_full. Exhaustive within these bounds; programs deeper than 2 and longer arrays are outside.",
   "Trusted: vmodel::spec_validate. Format readers are monitored by their own checks (C04/C05/C08/C14/C17), not re-run here; the force_validate build variant is not built yet.",
   "DESIGN.md section 4, C01"),
 "C02": ("vk-compute", "exploration",
   "bounded exhaustive enumeration of (type, column, layout) realisations with a layout-independent value model: accessor round trip, pairwise equality, kernel congruence across layouts, commutation with take/slice/concat",
   "(a) extract(realise(col, layout)) == col, logical nulls, null counts and formatter text for 62 types x all columns (len <= 3) x all layouts with <= 2 deviations; (b) a1 == a2 iff the logical columns are equal for all pairs of (column of len <= 2, layout with <= 1 deviation) per type, also through ArrayData::eq; (c) each of ~110 kernels gives the same outcome class and the same extracted values on every layout of the same column as on the compact one (binary kernels with the other operand in compact and sliced layouts, both sides); (d) row-wise kernels commute with every index vector of length <= 2, every slice and every two-way concat split.",
   "Trusted: vmodel realise/extract (validated by (a) itself: a bug in either shows up as a round-trip failure). == is compared with the model except for the dict-null-value layout (physical validity is documented to matter). Panics that occur on every layout alike are counted, not violations.",
   "DESIGN.md section 4, C02"),
 "C03": ("vk-compute", "model_checking",
   "explicit-state BFS over BatchCoalescer push/filter/indices/finish/next histories against a row-id model, plus bounded exhaustive enumeration of selection-kernel arguments against naive row-by-row references",
   "Kernels: filter (+optimized, sliced predicate), take (4 index types, nulls with out-of-range payload, duplicates, check_bounds), nullif, zip, slice, shift, concat, interleave, dictionary gc and the record-batch forms, for 62 types x all columns (len <= 3) x all layouts (<= 1 deviation) x every mask in {T,F,null}^n / every index vector of length <= 2 / every interleave list of length <= 2; structured filter families crossing the 0.8-selectivity, len/16 and 64-bit-word thresholds up to 1025 rows. Coalescer: BFS to depth 4 (6 thorough) over 32 operations for 5 schemas x target sizes {1,2,3,5} x bypass limit {None,2,4}; every transition runs on the real coalescer and is compared with the model (buffered rows, completed queue, emitted batches, exact batch sizes, final drain).",
   "Trusted: the ten-line reference implementations on Vec<Val>. Union columns are excluded from null-index / shift / nullif (no validity of their own). With a bypass limit only the row sequence is checked, as the property states.",
   "DESIGN.md section 4, C03"),
 "C06": ("vk-pqread", "exploration",
   "bounded exhaustive enumeration of reader option points (deviation-bounded product with a fully multiplied selection x offset x limit core) over generated Parquet files against a reference computed on rows; exhaustive RowSelection algebra against sets of positions",
   "36 in-memory files (6 schemas incl. nested x 6 physical layouts: 1/3 unequal row groups, 1-3 rows per page, offset index on/off, dictionary on/off, v1/v2 pages; unique row ids) read under every configuration within 2 deviations of default (projection subsets, row-group lists incl. non-ascending, batch size, selection policy, page index, 9 predicate chains incl. predicate-only columns and null results, cache size 0) crossed with all 2^T row selections x 5 presentations x 6 offsets x 5 limits (reduced at 2 deviations); result rows, schema, batch bounds and validate_full compared with row-group choice -> selection -> predicates -> offset -> limit -> projection on Vec<row>. Algebra: all 127 selections over length <= 6 x 6 presentations, all ordered pairs: and_then, intersection, union, split_off(k), from_filters, from_consecutive_ranges, counts, iter, ==, scan_ranges against every page layout of <= 4 pages.",
   "Trusted: the reference pipeline on Vec<row> and ArrowWriter as the file generator (its output is compared once with the written data). Files of 8-10 rows; 3 simultaneous deviations are outside.",
   "DESIGN.md section 4, C06; engine/vk-pqread/STATUS.md"),
 "C15": ("vk-pqread", "model_checking",
   "stateless depth-first exploration of environment answers (I/O schedules) of the real push decoder and async stream with a deviation bound, every trace executed on the implementation and compared with the synchronous reader",
   "Push decoder (3 API modes): before each call 8 alternative environment actions (early pushes of whole file / row groups, into_builder rebuilds at row-group boundaries, clear_all_ranges, API switch) and 14 answers to each NeedsData (exact, permuted, one-by-one, duplicated, strict subsets, +-1 byte, enclosing range, whole row group, whole file, next row group early); async stream over a hand-written AsyncFileReader and executor (per-range/vectored, metadata up front/fetched, poll_next/next_row_group, spurious polls; every subset of futures pending once up to the bound). Bound 2 deviations quick, 3-4 thorough, over 36 files x 12-15 option points plus option sweeps. Oracle: rows equal the sync reader's, requested ranges non-empty and inside the file, progress after exact answers, re-request after subset answers, buffered_bytes accounting, Finished sticky, no lost wake-ups.",
   "Trusted: the synchronous reader as the row oracle (tied to the reference model by C06). Futures pend at most once; into_builder rebuilds keep projection and filter.",
   "DESIGN.md section 4, C15; engine/vk-pqread/STATUS.md"),
 "C09": ("vk-compute", "exploration",
   "bounded exhaustive enumeration of single mutilations of valid ArrayData against validating constructors, acceptance checked by an independent validator written from the Arrow format specification",
   "For 62 types x all columns (len <= 2) x layouts (<= 1 deviation): every mutilation of a type-agnostic menu (len/offset +-1 and overflowing, buffer dropped/added/truncated by a byte or an element/misaligned, validity short/forbidden/wrong null_count, child dropped/added/retyped/shortened/lengthened, every cell of every offsets/sizes/keys/type-id/view/value buffer of the array and its children overwritten by each of 8 replacement values) is fed to ArrayData::try_new, ArrayDataBuilder::build (with and without align_buffers) and new_unchecked+validate_full; whatever is accepted must pass vmodel::spec_validate; RecordBatch::try_new(_with_options) trials.",
   "Trusted: vmodel::spec_validate (it is never stricter than arrow-rs documents: arbitrary payload under nulls for dictionary keys, empty offsets for empty arrays). Only single mutilations; typed try_new constructors and the C Data Interface import path are not driven yet.",
   "DESIGN.md section 4, C09"),
 "C13": ("vk-cast", "exploration",
   "bounded exhaustive enumeration of the ordered-pair cast matrix over a type grid x small columns x layouts, exhaustive 8/16-bit and Float16 sources, every calendar day 0001-9999, and a DataType grammar, against documented-semantics references and relational oracles",
   "Complete ordered-pair product of a 92-type grid (8464 pairs, 5136 accepted by can_cast_types): O1 can_cast_types implies no unsupported-class error on the empty and all-null column; O2 strict/safe duality row-wise on every column of length <= 2 (3) over the full alphabet and <= 3 (5) over core letters x {compact, sliced, garbage-under-nulls}; O3 exact references only where a documentation sentence pins the value (each family cites it); O4 inverse identities on 648 lossless pairs; exhaustive sources: all values of Int8/UInt8/Int16/UInt16 and all Float16 bit patterns to every castable target in both modes; text: every Date32 day of years 0001-9999 and timestamp lattices in 4 zones through format and parse, every FormatOptions field one deviation from default; DataType Display->FromStr over a depth-2 grammar (12k / 20k types).",
   "Trusted: the per-family reference semantics derived from the cited documentation sentences; named IANA zones and unions are outside the grid.",
   "DESIGN.md section 4, C13; engine/vk-cast/STATUS.md"),
 "C16": ("vk-buffer", "model_checking",
   "explicit-state BFS over operation histories of the real buffer/array/FFI objects against a reference model, plus stateless enumeration of all thread schedules up to a preemption bound under a baton scheduler",
   "States are histories replayed on fresh real objects (Buffer, MutableBuffer, BooleanBuffer, Int32Array, exported/imported C Data Interface structs, bytes::Bytes) sharing one region of each allocation kind (Vec, MutableBuffer, custom owner, bytes crate); 19 operation kinds x handle index, BFS with canonical sharing-graph dedup to depth 6 (quick) / 8 (thorough). After every transition: each live handle still shows its snapshot, the custom owner's release counter is 0 while a handle is alive and 1 afterwards, FFI release callbacks ran once per export, pool.used() lies within the model of live claims, and at teardown everything is released exactly once. Thread part: every 2-3 thread program of 1-2 operations is run under all schedules with <= 2 (3) preemptions.",
   "Sequentially consistent, scheduling points at operation boundaries and at harness-held intermediate states only (no points inside library functions; no weak-memory reasoning). Pool model accepts an interval where arrow-buffer's own tests pin len-based re-sizing of MutableBuffer reservations.",
   "DESIGN.md section 4, C16"),
}
NOT_YET = {}

def main():
    props = [json.loads(l)["id"] for l in open(os.path.join(HERE, "properties.jsonl"))]
    checks = []
    for pid in props:
        if pid not in CHECKS: continue
        eng, cat, tech, text, note, ref = CHECKS[pid]
        checks.append({
            "property_id": pid,
            "quick_cmd": f"./check {pid} --tier quick",
            "thorough_cmd": f"./check {pid} --tier thorough",
            "evidence_file": f"/verif/evidence/{pid}.json",
            "replay_cmd_template": f"./check {pid} --replay {{path}}",
            "engine": eng,
            "level_claimed": {"category": cat, "text": text, "design_ref": ref},
            "level_note": note,
            "technique": tech,
        })
    na = [{"property_id": p, "reason": NOT_YET.get(p, "no check registered yet: the bounded-exhaustive engine for this property (DESIGN.md section 4) is still being built; model checking is applicable, the property is simply not claimed at this commit")} for p in props if p not in CHECKS]
    engines = {}
    for c in checks:
        engines.setdefault(c["engine"], []).append(c["property_id"])
    m = {
        "version": 1,
        "setup_cmd": "cd /verif/engine && CARGO_NET_OFFLINE=true cargo build --release --offline " + " ".join("-p " + e for e in sorted(engines)),
        "hooks": {
            "guard": "verif_hooks",
            "enable": "no source hooks exist: engines link /repo crates by path dependency and drive public APIs only; the name verif_hooks is reserved",
            "baseline_off_cmd": "cd /repo && cargo nextest run --workspace --no-fail-fast --tool-config-file pb:/w/lib/nextest.toml --profile pb --test-threads 8 --offline",
            "source_commits": [],
            "add_only": True,
        },
        "engines": [{"name": k, "path": f"/verif/engine/{k}", "serves_properties": v,
                     "kind_free_text": "Rust binary linking /repo crates by path; bounded exhaustive enumeration / explicit-state history BFS / stateless schedule and fault enumeration on the real code against reference models"} for k, v in sorted(engines.items())],
        "checks": checks,
        "not_applicable": na,
        "notes": "All checks: ./check <ID> --tier quick|thorough. Exit 0 held / 1 unlisted violation / 2 machinery failure. known_findings.json lists recorded and fixed defects.",
    }
    out = os.path.join(HERE, "MANIFEST.json")
    json.dump(m, open(out, "w"), indent=1)
    open(out, "a").write("\n")
    try:
        import jsonschema
        jsonschema.validate(m, json.load(open("/root/.vp/MANIFEST.schema.json")))
        es = json.load(open("/root/.vp/EVIDENCE.schema.json"))
        for c in checks:
            p = c["evidence_file"]
            if os.path.exists(p):
                jsonschema.validate(json.load(open(p)), es)
                ev = json.load(open(p))
                assert ev["level"] == c["level_claimed"]["category"], (p, ev["level"])
        print("MANIFEST ok;", len(checks), "checks,", len(na), "unclaimed")
    except ImportError:
        print("jsonschema not importable here; wrote MANIFEST without validation")

if __name__ == "__main__":
    main()
