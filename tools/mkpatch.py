#!/usr/bin/env python3
"""mkpatch.py <out.diff> <file> <old> <new> [<file> <old> <new> ...] : builds a patch against /repo HEAD
in a scratch worktree (/root/scratch/mk/repo) by exact string replacement; never touches /repo."""
import subprocess, sys, os
S="/root/scratch/mk/repo"
os.makedirs("/root/scratch/mk", exist_ok=True)
if not os.path.isdir(S):
    subprocess.check_call(["git","-C","/repo","worktree","add","--detach",S,"HEAD"],stdout=subprocess.DEVNULL,stderr=subprocess.DEVNULL)
head=subprocess.check_output(["git","-C","/repo","rev-parse","HEAD"],text=True).strip()
subprocess.check_call(["git","-C",S,"checkout","-q","--detach",head]); subprocess.check_call(["git","-C",S,"checkout","-q","--","."])
out=sys.argv[1]; a=sys.argv[2:]
for i in range(0,len(a),3):
    f,old,new=a[i],a[i+1],a[i+2]
    p=os.path.join(S,f); s=open(p).read()
    assert s.count(old)>=1, f"pattern not found in {f}: {old[:60]}"
    s=s.replace(old,new,1); open(p,"w").write(s)
d=subprocess.check_output(["git","-C",S,"diff"],text=True)
open(out,"w").write(d); subprocess.check_call(["git","-C",S,"checkout","-q","--","."])
print(out, len(d.splitlines()), "lines")
