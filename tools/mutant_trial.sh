#!/bin/bash
# usage: mutant_trial.sh <patch.diff> <engine-crate> <ID> [tier] [scratch-name]
# Applies a patch to a scratch worktree of /repo (never /repo itself), builds the engine against it
# and runs the check there. Exit code of the check is printed. The scratch tree is reset afterwards.
set -u
PATCH=$(readlink -f "$1"); CRATE=$2; ID=$3; TIER=${4:-quick}; NAME=${5:-mt}
S=/root/scratch/$NAME
mkdir -p $S/vd
if [ ! -d $S/repo ]; then git -C /repo worktree add --detach $S/repo HEAD >/dev/null 2>&1 || { echo "worktree failed"; exit 3; }; fi
git -C $S/repo checkout -q --detach $(git -C /repo rev-parse HEAD) && git -C $S/repo checkout -q -- . && git -C $S/repo clean -fdq
if [ "$PATCH" != "/dev/null" ]; then git -C $S/repo apply "$PATCH" || { echo "patch does not apply"; exit 3; }; fi
rsync -a --delete --exclude 'target*' /verif/engine/ $S/engine/
find $S/engine -name Cargo.toml | xargs sed -i "s#\"/repo/#\"$S/repo/#g"
cp /verif/known_findings.json $S/vd/
( set -o pipefail; cd $S/engine && CARGO_TARGET_DIR=$S/target cargo build --release --offline -q -p $CRATE 2>&1 | tail -5 ) || { echo "engine build failed (patched tree does not compile with the engine?)"; exit 3; }
cd $S/vd && VERIF_DIR=$S/vd timeout 3000 $S/target/release/$CRATE $ID --tier $TIER > $S/vd/last.log 2>&1
RC=$?
grep -E "^(VIOLATION|KNOWN-FINDING|  fingerprint|  message|C[0-9]+ tier|CAP|MACHINERY)" $S/vd/last.log | head -20
echo "check exit: $RC"
git -C $S/repo checkout -q -- . ; git -C $S/repo clean -fdq
if [ "$RC" -ge 128 ]; then echo "note: the engine was killed by a signal (exit $RC); the ./check driver reports that as VIOLATION fingerprint engine-died:<signal> and exits 1"; fi
