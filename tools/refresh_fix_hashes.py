#!/usr/bin/env python3
"""After a history rewrite of /repo's fix commits: map every 7-char hash recorded in known_findings.json
('fixed' entries) and DESIGN.md to the commit with the same subject in /repo's current history.
usage: refresh_fix_hashes.py <old-tip> (a commit that still has the old hashes in its history)"""
import json, re, subprocess, sys
def log(rev):
    out = subprocess.check_output(['git', '-C', '/repo', 'log', '--format=%h\t%s', rev], text=True)
    return [l.split('\t', 1) for l in out.splitlines() if '\t' in l]
old = {s: h for h, s in log(sys.argv[1])}
new = {s: h for h, s in log('HEAD')}
m = {old[s][:7]: new[s][:7] for s in old if s in new and old[s][:7] != new[s][:7]}
print(m)
for p in ['/verif/known_findings.json', '/verif/DESIGN.md']:
    t = open(p).read()
    for a, b in m.items():
        t = re.sub(r'\b' + a + r'\b', b, t)
    open(p, 'w').write(t)
