#!/usr/bin/env python3
"""Regression pass over the kept seeds: applies each seeded/<name>/patch.diff to a scratch worktree (never
/repo), builds the engine copy against it and runs the quick check of the seed's property (or of the
properties given as name:ID[,ID...]). One JSON line per run is appended to seeded/regression.jsonl.
usage: regress_seeds.py <scratch-name> <seed-name>[:<ID>,...] ..."""
import json, os, re, subprocess, sys, time
ENG = {'C01': 'vk-compute', 'C02': 'vk-compute', 'C03': 'vk-compute', 'C09': 'vk-compute', 'C16': 'vk-buffer', 'C19': 'vk-buffer', 'C12': 'vk-arith',
       'C20': 'vk-string', 'C13': 'vk-cast', 'C10': 'vk-ord', 'C11': 'vk-ord', 'C14': 'vk-stream', 'C18': 'vk-stream', 'C17': 'vk-text', 'C04': 'vk-ipc',
       'C08': 'vk-untrusted', 'C05': 'vk-pqwrite', 'C07': 'vk-pqwrite', 'C06': 'vk-pqread', 'C15': 'vk-pqread'}
scratch = sys.argv[1]
out = open('/verif/seeded/regression.jsonl', 'a')
for spec in sys.argv[2:]:
    name, _, ids = spec.partition(':')
    ids = ids.split(',') if ids else [name[:3]]
    for pid in ids:
        t0 = time.time()
        p = subprocess.run(['bash', '/verif/tools/mutant_trial.sh', f'/verif/seeded/{name}/patch.diff', ENG[pid], pid, 'quick', scratch],
                           stdout=subprocess.PIPE, stderr=subprocess.STDOUT, text=True)
        log = f'/root/scratch/{scratch}/vd/last.log'
        body = open(log, errors='replace').read() if os.path.exists(log) else ''
        m = re.search(r'check exit: (\d+)', p.stdout)
        rc = int(m.group(1)) if m else None
        fps = []
        for f in re.findall(r'^  fingerprint: (.*)$', body, re.M):
            if f not in fps:
                fps.append(f)
        summary = re.search(r'^C\d+ tier=.*$', body, re.M)
        rec = {'seed': name, 'check': pid, 'exit': rc, 'reported': rc == 1 or (rc is not None and rc >= 128),
               'engine_died': rc is not None and rc >= 128, 'fingerprints': fps[:8], 'n_fingerprints': len(fps),
               'summary': summary.group(0)[:200] if summary else None, 'build_failed': 'engine build failed' in p.stdout or 'patch does not apply' in p.stdout,
               'engine_commit': subprocess.run(['git', '-C', '/verif', 'rev-parse', '--short', 'HEAD'], stdout=subprocess.PIPE, text=True).stdout.strip(),
               'repo_commit': subprocess.run(['git', '-C', '/repo', 'rev-parse', '--short', 'HEAD'], stdout=subprocess.PIPE, text=True).stdout.strip(),
               'wall_s': round(time.time() - t0)}
        print(json.dumps(rec)); sys.stdout.flush()
        out.write(json.dumps(rec) + '\n'); out.flush()
