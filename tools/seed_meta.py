#!/usr/bin/env python3
"""Builds /verif/seeded/<id>/meta.json from the seeding agent's meta, the independent confirmation log
(tools/seed_verify.sh) and the detection-trial logs (tools/mutant_trial.sh)."""
import json, os, re, sys, glob
SE="/verif/seeded"
verify=open("/root/scratch/seed_verify.log").read() if os.path.exists("/root/scratch/seed_verify.log") else ""
trials=""
for f in sorted(glob.glob("/root/scratch/seed_trials*.log")): trials+=open(f).read()
notes=json.load(open("/verif/seeded/notes.json")) if os.path.exists("/verif/seeded/notes.json") else {}
def section(text, header_re):
    m=re.search(header_re, text, flags=re.M)
    if not m: return ""
    rest=text[m.end():]
    n=re.search(r"^=== ", rest, flags=re.M)
    return rest[:n.start()] if n else rest
for d in sorted(os.listdir(SE)):
    p=os.path.join(SE,d)
    if not os.path.isdir(p): continue
    agent={}
    if os.path.exists(p+"/meta.agent.json"):
        try: agent=json.load(open(p+"/meta.agent.json"))
        except Exception as e: agent={"_unparsed": open(p+"/meta.agent.json").read()[:2000]}
    v=section(verify, rf"^=== verify {d} .*$\n") if verify else ""
    v=re.sub(r"^\s*(Compiling|Finished|Running|warning).*$\n","",v,flags=re.M)
    runs=[]
    for m in re.finditer(rf"^=== seed {d}(?: vs (C\d+))?.*$\n", trials, flags=re.M):
        rest=trials[m.end():]; n=re.search(r"^=== ", rest, flags=re.M); body=rest[:n.start()] if n else rest
        fps=re.findall(r"^  fingerprint: (.*)$", body, flags=re.M)
        ex=re.search(r"check exit: (\d+)", body)
        runs.append({"check": m.group(1) or d, "exit": int(ex.group(1)) if ex else None, "fingerprints": [f.replace("/root/scratch/mt/repo/","") for f in fps]})
    meta={"property": d,
          "summary": agent.get("summary"), "needs_to_manifest": agent.get("needs_to_manifest"), "files_touched": agent.get("files_touched"),
          "seeded_by": "fresh sub-agent given only the property text and a scratch worktree (nothing from /verif)",
          "agent_reported": {k:agent.get(k) for k in ("crate_tests_run","demo_with_patch","demo_without_patch","demo_command") if k in agent},
          "independent_confirmation": {"how": "tools/seed_verify.sh in /root/scratch/sv (scratch worktree of /repo HEAD): demo on the clean tree, demo with patch.diff applied, the crate's own tests with the patch", "log": [l for l in v.strip().split("\n") if l.strip()][:14]},
          "detection_trials": {"how": "tools/mutant_trial.sh <patch> <engine> <ID> quick (scratch worktree + engine copy, never /repo); exit 1 = VIOLATION reported", "runs": runs},
          "note": notes.get(d)}
    json.dump(meta, open(p+"/meta.json","w"), indent=1, ensure_ascii=False)
    print(d, "confirmed-lines", len(meta["independent_confirmation"]["log"]), "runs", [(r["check"], r["exit"]) for r in runs])
