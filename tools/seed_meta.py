#!/usr/bin/env python3
"""Builds /verif/seeded/<name>/meta.json from the seeding agent's own meta (meta.agent.json), the independent
confirmation (seeded/verification.jsonl, written by tools/seed_verify_all.py), the regression pass over the final
engines (seeded/regression.jsonl, written by tools/regress_seeds.py) and the notes on how each seed was first
received (seeded/notes.json)."""
import json, os, re
SE = "/verif/seeded"
def jl(p):
    out = []
    if os.path.exists(p):
        for l in open(p):
            try: out.append(json.loads(l))
            except Exception: pass
    return out
ver = {}
for r in jl(SE + "/verification.jsonl"): ver[r["seed"]] = r           # last entry wins
reg = {}
for r in jl(SE + "/regression.jsonl"): reg.setdefault(r["seed"], {})[r["check"]] = r
notes = json.load(open(SE + "/notes.json")) if os.path.exists(SE + "/notes.json") else {}
# trial logs of the session (copies under seeded/logs, oldest first): "=== seed <name> [vs <ID>]" sections
import glob
hist = {}
LOGS = sorted(glob.glob(SE + "/logs/seed_trials*.log"), key=lambda p: (len(os.path.basename(p)), p)) + [SE + "/logs/seed2_trials.log"] + sorted(glob.glob(SE + "/logs/seed2_trials_*.log")) + sorted(glob.glob(SE + "/logs/seed3_trials_*.log"))
for lf in LOGS:
    if not os.path.exists(lf): continue
    text = open(lf).read()
    if lf.endswith("/seed2_trials.log"):
        # from the first C14b header on, two queues wrote into this file at once; those trials were re-run
        # (seed2_trials_b..e.log), so the interleaved tail is ignored
        cut = text.find("=== seed C14b vs C14")
        if cut >= 0: text = text[:cut]
    for m in re.finditer(r"^=== seed (C\d+[bc]?)(?: vs (C\d+))?.*$\n", text, flags=re.M):
        rest = text[m.end():]; n = re.search(r"^=== ", rest, flags=re.M); body = rest[:n.start()] if n else rest
        ex = re.search(r"check exit: (\d+)", body)
        if not ex: continue
        fps = []
        for f in re.findall(r"^  fingerprint: (.*)$", body, flags=re.M):
            f = re.sub(r"/root/scratch/[a-z0-9]+/repo/", "", f)
            if f not in fps: fps.append(f)
        hist.setdefault(m.group(1), []).append({"check": m.group(2) or m.group(1)[:3], "exit": int(ex.group(1)), "fingerprints": fps[:6], "log": "seeded/logs/" + os.path.basename(lf)})
oldver = open(SE + "/logs/seed_verify.log").read() if os.path.exists(SE + "/logs/seed_verify.log") else ""
def old_section(d):
    m = re.search(rf"^=== verify {d} .*$\n", oldver, flags=re.M)
    if not m: return None
    rest = oldver[m.end():]; n = re.search(r"^=== ", rest, flags=re.M)
    body = rest[:n.start()] if n else rest
    return [l for l in body.strip().split("\n") if l.strip() and not re.match(r"\s*(Compiling|Finished|Running|warning)", l)][:14]
for d in sorted(os.listdir(SE)):
    p = os.path.join(SE, d)
    if not os.path.isdir(p) or not os.path.exists(p + "/patch.diff"): continue
    agent = {}
    if os.path.exists(p + "/meta.agent.json"):
        try: agent = json.load(open(p + "/meta.agent.json"))
        except Exception: agent = {"_unparsed": open(p + "/meta.agent.json").read()[:2000]}
    v = ver.get(d)
    conf = None
    if v:
        conf = {"how": "tools/seed_verify_all.py in a scratch worktree of /repo HEAD (never /repo): the demonstration on the clean tree, the demonstration with patch.diff applied, and cargo nextest of the patched crate(s) compared with the pinned baseline's stable_pass list",
                "demo_command": v.get("demo_cmd"), "demo_on_clean_tree": v.get("demo_on_clean_tree"), "demo_with_patch": v.get("demo_with_patch"),
                "demo_failure_with_patch": v.get("demo_patched_tail"), "existing_tests_with_patch": v.get("existing_tests_with_patch"),
                "not_passed": v.get("existing_tests_not_passed"), "error": v.get("error"),
                "remark": "NOT-RUN entries are feature-gated tests of the baseline that a per-crate run does not build (ffi, lz4/zstd, prettyprint); no stable test FAILED" if any("NOT-RUN" in x for x in (v.get("existing_tests_not_passed") or [])) else None}
    if conf is None and old_section(d):
        conf = {"how": "tools/seed_verify.sh in a scratch worktree of /repo HEAD (never /repo): demonstration on the clean tree, demonstration with patch.diff applied, the crate's own tests with the patch", "log": old_section(d)}
    runs = [{"check": c, "exit": r["exit"], "reported": r["reported"], "engine_died": r.get("engine_died"), "fingerprints": r["fingerprints"], "n_fingerprints": r["n_fingerprints"],
             "check_summary": r.get("summary"), "verif_commit": r.get("engine_commit"), "repo_commit": r.get("repo_commit")} for c, r in sorted(reg.get(d, {}).items())]
    meta = {"property": d[:3], "round": {"": 1, "b": 2, "c": 3}.get(d[3:], 1),
            "summary": agent.get("summary"), "needs_to_manifest": agent.get("needs_to_manifest"), "files_touched": agent.get("files_touched"),
            "seeded_by": "fresh sub-agent given only the property text and a scratch worktree of /repo (nothing from /verif); rounds 2 and 3 were also told which functions earlier seeds had changed",
            "agent_reported": {k: agent.get(k) for k in ("crate_tests_run", "demo_with_patch", "demo_without_patch", "demo_command") if k in agent},
            "independent_confirmation": conf,
            "what_i_ran": {"how": "tools/regress_seeds.py -> tools/mutant_trial.sh: patch applied to a scratch worktree (never /repo), engine copy built against it, quick tier of the check; exit 1 = VIOLATION reported; an engine killed by a signal is reported by ./check as VIOLATION engine-died",
                           "final_engines": runs,
                           "session_history": hist.get(d, [])},
            "first_reception": notes.get(d)}
    json.dump(meta, open(p + "/meta.json", "w"), indent=1, ensure_ascii=False)
    print(d, "confirmed" if conf else "UNCONFIRMED", [(r["check"], r["exit"]) for r in runs], [(r["check"], r["exit"]) for r in hist.get(d, [])])
