#!/bin/bash
# usage: seed2_take.sh <ID> [scratch-name]   - stores /tmp/seed2_<ID>/out as seeded/<ID>b and runs the detection trial
set -u
ID=$1; NAME=${2:-mt2}; SRC=${3:-/tmp/seed2_}; SUF=${4:-b}
declare -A ENG=( [C01]=vk-compute [C02]=vk-compute [C03]=vk-compute [C09]=vk-compute [C16]=vk-buffer [C19]=vk-buffer [C12]=vk-arith [C20]=vk-string [C13]=vk-cast [C10]=vk-ord [C11]=vk-ord [C14]=vk-stream [C18]=vk-stream [C17]=vk-text [C04]=vk-ipc [C08]=vk-untrusted [C05]=vk-pqwrite [C07]=vk-pqwrite [C06]=vk-pqread [C15]=vk-pqread )
D=/verif/seeded/${ID}${SUF}
mkdir -p $D
cp ${SRC}$ID/out/patch.diff $D/patch.diff
cp ${SRC}$ID/out/demo.rs $D/demo.rs 2>/dev/null
cp ${SRC}$ID/out/meta.json $D/meta.agent.json
echo "=== seed ${ID}${SUF} vs $ID (${ENG[$ID]})"
bash /verif/tools/mutant_trial.sh $D/patch.diff ${ENG[$ID]} $ID quick $NAME 2>&1 | cut -c1-300
