#!/bin/bash
# usage: seed_verify.sh <seed-dir> <crate> [cargo feature args]
# Confirms a seeded change independently in a scratch worktree: demo passes on the clean tree, fails with the
# patch, and the crate's own tests still pass with the patch.
set -u
SD=$(readlink -f "$1"); CRATE=$2; shift 2; FEAT="$*"
S=/root/scratch/sv; mkdir -p $S
if [ ! -d $S/repo ]; then git -C /repo worktree add --detach $S/repo HEAD >/dev/null 2>&1; fi
git -C $S/repo checkout -q --detach $(git -C /repo rev-parse HEAD); git -C $S/repo checkout -q -- .; git -C $S/repo clean -fdq -e target
export CARGO_TARGET_DIR=$S/target CARGO_NET_OFFLINE=true
mkdir -p $S/repo/$CRATE/tests; cp $SD/demo.rs $S/repo/$CRATE/tests/seed_demo.rs
echo "--- demo on clean tree"; (cd $S/repo && cargo test -q --offline -j 6 -p $CRATE $FEAT --test seed_demo 2>&1 | grep -E "^test result|FAILED|panicked|error(\[|:)" | head -5)
git -C $S/repo apply $SD/patch.diff || { echo "PATCH DOES NOT APPLY"; exit 3; }
echo "--- demo with patch"; (cd $S/repo && cargo test -q --offline -j 6 -p $CRATE $FEAT --test seed_demo 2>&1 | grep -E "^test result|FAILED|panicked|error(\[|:)" | head -5)
rm -f $S/repo/$CRATE/tests/seed_demo.rs
echo "--- crate tests with patch"; (cd $S/repo && cargo test -q --offline -j 6 -p $CRATE $FEAT 2>&1 | grep -E "^test result|FAILED|error(\[|:)" | head -8)
git -C $S/repo checkout -q -- .; git -C $S/repo clean -fdq -e target
