#!/usr/bin/env python3
"""Independent confirmation of seeded changes in a scratch worktree of /repo (never /repo itself).
For every seed directory given: the demonstration passes on the clean tree, fails with patch.diff applied,
and every stable_pass test (pinned baseline) of the patched crate(s) still passes with the patch.
usage: seed_verify_all.py <seed-dir>...   (appends one JSON line per seed to /verif/seeded/verification.jsonl)"""
import json, os, re, subprocess, sys
S = '/root/scratch/sv'
ENV = dict(os.environ, CARGO_TARGET_DIR=S + '/target', CARGO_NET_OFFLINE='true')
def sh(cmd, cwd=None, timeout=7200):
    p = subprocess.run(cmd, shell=True, cwd=cwd, env=ENV, stdout=subprocess.PIPE, stderr=subprocess.STDOUT, text=True, timeout=timeout)
    return p.returncode, p.stdout
def reset():
    os.makedirs(S, exist_ok=True)
    if not os.path.isdir(S + '/repo'):
        sh(f'git -C /repo worktree add --detach {S}/repo HEAD')
    sh(f'git -C {S}/repo checkout -q --detach $(git -C /repo rev-parse HEAD); git -C {S}/repo checkout -q -- .; git -C {S}/repo clean -fdq')
FEATS = {'arrow-array': '--features ffi', 'arrow-data': '--features ffi', 'parquet': '--features async', 'arrow-ipc': '--features lz4,zstd'}
def demo_cmd(sd):
    src = open(sd + '/demo.rs').read()
    m = re.search(r'([a-z][a-z0-9\-]+)/(tests|examples)/[A-Za-z0-9_]+\.rs', src)
    patch = open(sd + '/patch.diff').read()
    pcrates = sorted(set(re.findall(r'^\+\+\+ b/([^/]+)/', patch, re.M)))
    crate = m.group(1) if m else pcrates[0]
    kind = m.group(2) if m else ('examples' if re.search(r'^fn main\(', src, re.M) else 'tests')
    if re.search(r'^fn main\(', src, re.M) and not re.search(r'#\[test\]', src):
        kind = 'examples'
    feat = FEATS.get(crate, '')
    dst = f'{S}/repo/{crate}/{kind}/seed_demo.rs'
    run = (f'cargo run -q --offline -j 8 -p {crate} {feat} --example seed_demo' if kind == 'examples'
           else f'cargo test -q --offline -j 8 -p {crate} {feat} --test seed_demo')
    return crate, dst, run, pcrates
def main():
    out = open('/verif/seeded/verification.jsonl', 'a')
    for sd in sys.argv[1:]:
        sd = os.path.abspath(sd); name = os.path.basename(sd)
        rec = {'seed': name}
        try:
            reset()
            crate, dst, run, pcrates = demo_cmd(sd)
            rec.update(demo_crate=crate, patched_crates=pcrates, demo_cmd=run)
            os.makedirs(os.path.dirname(dst), exist_ok=True)
            open(dst, 'w').write(open(sd + '/demo.rs').read())
            rc, o = sh(run, cwd=S + '/repo')
            rec['demo_on_clean_tree'] = 'passes' if rc == 0 else 'FAILS'
            rec['demo_clean_tail'] = o.strip().splitlines()[-2:]
            rc, o = sh(f'git -C {S}/repo apply {sd}/patch.diff')
            if rc != 0:
                rec['error'] = 'patch does not apply to /repo HEAD'; raise RuntimeError
            rc, o = sh(run, cwd=S + '/repo')
            rec['demo_with_patch'] = 'fails' if rc != 0 else 'PASSES'
            fl = [l for l in o.splitlines() if re.search(r'panicked|FAILED|assert|Error', l)]
            rec['demo_patched_tail'] = [l[:300] for l in fl[:3]]
            os.remove(dst)
            crates = sorted(set(pcrates))
            log = f'/root/scratch/sv_nextest_{name}.log'
            rc, o = sh('cargo nextest run --offline --no-fail-fast ' + ' '.join(f'-p {c}' for c in crates) + f' > {log} 2>&1', cwd=S + '/repo')
            rc, o = sh(f'python3 /verif/tools/baseline_compare.py {log} ' + ' '.join(crates))
            rec['existing_tests_with_patch'] = o.strip().splitlines()[0] if o.strip() else 'no output'
            rec['existing_tests_not_passed'] = [l.strip() for l in o.strip().splitlines()[1:6]]
        except RuntimeError:
            pass
        except Exception as e:
            rec['error'] = repr(e)[:300]
        print(json.dumps(rec)); sys.stdout.flush()
        out.write(json.dumps(rec) + '\n'); out.flush()
    reset()
main()
